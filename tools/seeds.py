#!/usr/bin/env python3
"""Seeded-change bookkeeping.

  tools/seeds.py intake Cxx              copy /tmp/wt_Cxx/seed_out/{patch,demo}_{A,B} into /verif/seeded/Cxx_A, Cxx_B
  tools/seeds.py confirm <seedid>        scratch worktree of /repo HEAD: demo passes, patch applies, demo fails,
                                         the 41 stable tests still pass; result into seeded/<seedid>/meta.json
  tools/seeds.py detect <seedid> [Cyy..] run ./check Cyy quick against a scratch copy with the patch applied

Nothing here ever modifies /repo; scratch trees live under $TMPDIR and are removed afterwards.
"""
import json
import os
import shutil
import subprocess
import sys
import tempfile
import time

HERE = os.path.dirname(os.path.dirname(os.path.abspath(__file__)))
SEEDED = os.path.join(HERE, "seeded")
PY = "/venv/bin/python"


def sh(cmd, **kw):
    return subprocess.run(cmd, shell=isinstance(cmd, str), capture_output=True, text=True, **kw)


def meta_path(sid):
    return os.path.join(SEEDED, sid, "meta.json")


def load_meta(sid):
    p = meta_path(sid)
    return json.load(open(p)) if os.path.exists(p) else {}


def save_meta(sid, m):
    json.dump(m, open(meta_path(sid), "w"), indent=1)


def intake(pid, src=None, letters="AB"):
    src = src or "/tmp/wt_%s/seed_out" % pid
    out = []
    for ab, new in zip("AB", letters):
        patch = os.path.join(src, "patch_%s.diff" % ab)
        if not os.path.exists(patch):
            continue
        sid = "%s_%s" % (pid, new)
        d = os.path.join(SEEDED, sid)
        os.makedirs(d, exist_ok=True)
        shutil.copy(patch, os.path.join(d, "patch.diff"))
        demo = os.path.join(src, "demo_%s.py" % ab)
        if os.path.exists(demo):
            shutil.copy(demo, os.path.join(d, "demo.py"))
        notes = os.path.join(src, "notes.md")
        if os.path.exists(notes):
            shutil.copy(notes, os.path.join(d, "notes.md"))
        m = load_meta(sid)
        m.update({"seed_id": sid, "property": pid, "source": "independent sub-agent, given only the property text and "
                                                              "a scratch worktree", "patch": "patch.diff",
                  "demo": "demo.py"})
        save_meta(sid, m)
        out.append(sid)
    print("intake:", out)
    return out


def make_scratch(patch=None):
    d = tempfile.mkdtemp(prefix="seedchk_")
    os.rmdir(d)
    r = sh(["git", "-C", "/repo", "worktree", "add", "--detach", "-q", d, "HEAD"])
    if r.returncode:
        raise SystemExit(r.stderr)
    if patch:
        r = sh(["git", "-C", d, "apply", patch])
        if r.returncode:
            drop_scratch(d)
            return None, r.stderr
    return d, ""


def drop_scratch(d):
    sh(["git", "-C", "/repo", "worktree", "remove", "--force", d])
    shutil.rmtree(d, ignore_errors=True)


def run_demo(tree, demo):
    env = dict(os.environ)
    env["PYTHONPATH"] = "%s:%s" % (tree, os.path.join(HERE, ".deps"))
    env["MPLBACKEND"] = "Agg"
    wd = tempfile.mkdtemp(prefix="seeddemo_")
    try:
        r = subprocess.run([PY, demo], cwd=wd, env=env, capture_output=True, text=True, timeout=1800)
        return r.returncode, (r.stdout + r.stderr)[-1500:]
    except subprocess.TimeoutExpired:
        return -9, "timeout"
    finally:
        shutil.rmtree(wd, ignore_errors=True)


def confirm(sid, tests=True):
    d = os.path.join(SEEDED, sid)
    patch = os.path.join(d, "patch.diff")
    demo = os.path.join(d, "demo.py")
    m = load_meta(sid)
    tree, err = make_scratch()
    rc0, out0 = run_demo(tree, demo)
    drop_scratch(tree)
    tree, err = make_scratch(patch)
    if tree is None:
        m["confirmed"] = False
        m["confirm_note"] = "patch does not apply to current /repo HEAD: " + err[-400:]
        save_meta(sid, m)
        print(sid, "patch does not apply")
        return False
    rc1, out1 = run_demo(tree, demo)
    ok_tests, tnote = None, ""
    if tests:
        r = sh([os.path.join(HERE, "tools", "run_baseline.sh"), tree])
        ok_tests = r.returncode == 0
        tnote = r.stdout[-600:]
    drop_scratch(tree)
    m["ran"] = {"demo_on_unpatched_head": {"exit": rc0, "tail": out0[-300:]},
                "demo_on_patched_tree": {"exit": rc1, "tail": out1[-600:]},
                "stable_tests_on_patched_tree": {"all_41_pass": ok_tests, "tail": tnote},
                "repo_head": sh("git -C /repo rev-parse --short HEAD").stdout.strip(),
                "at": time.strftime("%Y-%m-%d %H:%M:%S")}
    m["confirmed"] = bool(rc0 == 0 and rc1 != 0 and (ok_tests or not tests))
    save_meta(sid, m)
    print(sid, "confirmed" if m["confirmed"] else "NOT confirmed", rc0, rc1, ok_tests)
    return m["confirmed"]


def detect(sid, props=None, tier="quick"):
    d = os.path.join(SEEDED, sid)
    patch = os.path.join(d, "patch.diff")
    m = load_meta(sid)
    props = props or [m.get("property", sid.split("_")[0])]
    tree, err = make_scratch(patch)
    if tree is None:
        print(sid, "patch does not apply:", err[-300:])
        return
    res = m.setdefault("detection", {})
    try:
        for p in props:
            env = dict(os.environ)
            env["VERIF_REPO"] = tree
            t0 = time.time()
            r = subprocess.run([os.path.join(HERE, "check"), p, tier], env=env, capture_output=True, text=True,
                               cwd=HERE)
            viol = [l for l in r.stdout.splitlines() if l.startswith("VIOLATION")]
            sigs = [l.strip() for l in r.stdout.splitlines() if l.strip().startswith("signature:")]
            res["%s/%s" % (p, tier)] = {"exit": r.returncode, "violations": len(viol),
                                        "signatures": sorted(set(sigs))[:6], "wall_s": round(time.time() - t0, 1)}
            print(sid, p, tier, "exit", r.returncode, "violations", len(viol), sorted(set(sigs))[:3])
    finally:
        drop_scratch(tree)
        # evidence written by runs against a patched tree is not evidence for /repo: restore from git
        sh("git -C %s checkout -- evidence 2>/dev/null" % HERE)
    m["detected"] = any(v["exit"] == 1 for v in res.values())
    save_meta(sid, m)


def report():
    rows = []
    for sid in sorted(os.listdir(SEEDED)):
        if not os.path.isdir(os.path.join(SEEDED, sid)) or sid.startswith("_"):
            continue
        m = load_meta(sid)
        det = m.get("detection", {})
        hits = ["%s (%s)" % (k.split("/")[0], "; ".join(x.replace("signature: ", "") for x in v.get("signatures", [])[:2]))
                for k, v in sorted(det.items()) if v.get("exit") == 1]
        miss = [k.split("/")[0] for k, v in sorted(det.items()) if v.get("exit") == 0]
        rows.append((sid, m.get("confirmed"), m.get("needs_to_manifest", ""), hits, miss))
    lines = ["# Seeded changes: which check catches which change", "",
             "Generated by `tools/seeds.py report` from seeded/*/meta.json (quick tier, default seed, run against a scratch "
             "worktree of /repo HEAD with the patch applied).", "",
             "| seed | confirmed | needs, in order to manifest | caught by (signatures) | not caught by |", "|---|---|---|---|---|"]
    for sid, conf, needs, hits, miss in rows:
        lines.append("| %s | %s | %s | %s | %s |" % (sid, conf, needs, "<br>".join(hits) or "-", ", ".join(miss) or "-"))
    open(os.path.join(SEEDED, "DETECTION.md"), "w").write("\n".join(lines) + "\n")
    print("\n".join(lines))


if __name__ == "__main__":
    cmd = sys.argv[1]
    if cmd == "report":
        report()
        sys.exit(0)
    if cmd == "intake":
        for p in sys.argv[2:]:
            intake(p)
    elif cmd == "intake2":
        for p in sys.argv[2:]:
            intake(p, "/tmp/w2_%s/seed_out" % p, "CD")
    elif cmd == "intake3":
        for p in sys.argv[2:]:
            intake(p, "/tmp/w3_%s/seed_out" % p, "CD")
    elif cmd == "intake4":
        for p in sys.argv[2:]:
            intake(p, "/tmp/w4_%s/seed_out" % p, "EF")
    elif cmd == "intake5":
        for p in sys.argv[2:]:
            intake(p, "/tmp/w5_%s/seed_out" % p, "EF")
    elif cmd == "intake6":
        for p in sys.argv[2:]:
            intake(p, "/tmp/w6_%s/seed_out" % p, "GH")
    elif cmd == "intake7":
        for p in sys.argv[2:]:
            intake(p, "/tmp/w7_%s/seed_out" % p, "IJ")
    elif cmd == "intake8":
        for p in sys.argv[2:]:
            intake(p, "/tmp/w8_%s/seed_out" % p, "IJ")
    elif cmd == "intake9":
        for p in sys.argv[2:]:
            intake(p, "/tmp/w9_%s/seed_out" % p, "K")
    elif cmd == "confirm":
        for s in sys.argv[2:]:
            confirm(s)
    elif cmd == "confirm-notests":
        for s in sys.argv[2:]:
            confirm(s, tests=False)
    elif cmd == "detect":
        detect(sys.argv[2], sys.argv[3:] or None)
    elif cmd == "detect-thorough":
        detect(sys.argv[2], sys.argv[3:] or None, tier="thorough")
