#!/usr/bin/env python3
"""Regenerate /verif/MANIFEST.json from the property table below and the modules present in rv/props/."""
import json
import os

HERE = os.path.dirname(os.path.dirname(os.path.abspath(__file__)))

TABLE = {
    # id: (technique, level category, level text, level note, design ref)
    "C01": ("reference-model monitor on NLP rows (numpy RK4/Euler/discrete map vs gap rows at random points; rank monitor on "
            "the read-back Jacobian: coordinates independently assignable; B-spline signals at stage times, three-way decision)",
            "exploration",
            "Gap-closing rows and SingleShooting read-backs of generated OCPs are compared with an independent numpy "
            "implementation of the scheme at random (mostly infeasible) decision vectors; held on the cases explored.",
            "Trusted: numpy reference scheme, expression evaluator pair (self-checked), public sample() read-back of "
            "primitive symbols on the control grid, CasADi Function evaluation.", "5/C01"),
    "C02": ("reference-model monitor on NLP rows (independent collocation defects vs rows at random points; rank monitor on "
            "the read-back Jacobian of states / helper states / algebraic values)",
            "exploration",
            "Collocation/algebraic/continuity rows are compared with defects computed from independently derived "
            "collocation points and Lagrange weights at random decision vectors.",
            "Trusted: numpy Legendre/Radau points and Lagrange differentiation, read-back of helper states.", "5/C02"),
    "C03": ("convergence-order monitor (implied flow/integral vs scipy solve_ivp, M in 1..16; B-spline inputs: exact vs "
            "frozen-signal reference flow)", "exploration",
            "Implied end state and integral for M=1,2,4,8 compared with a 1e-12 reference flow; observed order "
            "must reach the classical order minus a margin.", "Bounded restatement of an asymptotic claim; "
            "trusted: scipy solve_ivp.", "5/C03"),
    "C04": ("row-attribution monitor (declared constraint ids found on NLP rows, multiset of slacks vs reference)",
            "exploration",
            "Every declared constraint carries an id via meta=; rows attributed to it must equal, as a multiset of "
            "slacks, the instances the statement prescribes; system rows must be fully accounted for.",
            "Trusted: Opti meta/user_dict attribution, reference instance enumeration.", "5/C04"),
    "C05": ("reference-model monitor on NLP objective at random points + solver-boundary tap", "exploration",
            "f(w) of generated OCPs equals the numpy evaluation of the declared terms.",
            "Trusted: reference quadrature rules.", "5/C05"),
    "C06": ("grid monitor (sampled times vs reference partitions; linear grid rows extracted, null-space sampling, LP)",
            "exploration", "Sampled time vectors and grid rows compared with independently computed partitions.",
            "Trusted: numpy/scipy partitions, linearity of grid rows (checked).", "5/C06"),
    "C07": ("compositionality monitor on sample/value/sol read-backs", "exploration",
            "sample(e) equals e evaluated by numpy on sampled primitives, for generated expressions/shapes/grids.",
            "Trusted: expression evaluator pair.", "5/C07"),
    "C08": ("refined-sampling monitor (nesting, per-step polynomial fit, sampler at random times)", "exploration",
            "At dynamically feasible points refined samples nest, lie on one polynomial per step and agree with "
            "sampler().", "Trusted: numpy polyfit, reference roll-out.", "5/C08"),
    "C09": ("differential + reference monitor on parameter handling with set_value histories", "exploration",
            "Parametric NLP data equal those of the OCP with constants written in; set_value histories observed at "
            "the Opti parameter vector.", "Trusted: reference NLP model, Opti value read-back.", "5/C09"),
    "C10": ("start-point monitor (opti initial values read back in physical units vs reference guess model)",
            "exploration", "Start point after set_initial events equals the reference guess.",
            "Trusted: reference model of guess semantics as stated in the property.", "5/C10"),
    "C11": ("differential monitor free-time vs fixed-time NLP at transported points", "exploration",
            "Free-time NLP restricted to T=c equals fixed-time NLP.", "Trusted: point transport via read-backs.",
            "5/C11"),
    "C12": ("differential monitor multi-stage NLP vs separately transcribed stages; clone vs direct declaration",
            "exploration", "Atoms and objective of composed problems equal union/sum of parts.",
            "Trusted: point transport via per-stage read-backs.", "5/C12"),
    "C13": ("history monitor: random operation sequences vs fresh OCP built from a shadow specification; declaration "
            "snapshots before / after a first transcription triggered through a stage object (multi-stage)",
            "exploration", "Evolved vs fresh NLP/solver settings compared after random histories.",
            "Trusted: shadow model of each public operation.", "5/C13"),
    "C14": ("differential monitor scaled vs unscaled NLP in physical coordinates", "exploration",
            "Objective equal, atoms equal up to declared scale, start point equal.", "Trusted: read-back transport.",
            "5/C14"),
    "C15": ("certificate-vs-trajectory monitor for grid='inf' rows (exact polynomial extrema per step)",
            "exploration", "min row slack <= min trajectory slack at sampled points.",
            "Trusted: polynomial recovery from refined samples.", "5/C15"),
    "C16": ("derivative monitor (der(e) vs finite differences and reference flow)", "exploration",
            "der(e) equals directional derivative along the declared dynamics at random points.",
            "Trusted: finite differences with tolerance 1e-6.", "5/C16"),
    "C17": ("spline monitors (helpers vs scipy BSpline; bspline signals and SplineMethod vs Cox-de Boor)",
            "exploration", "Helper matrices and sampled signals equal scipy evaluation.",
            "Trusted: scipy.interpolate.BSpline.", "5/C17"),
    "C18": ("differential monitor save/load round trip (loaded and original-after-save vs a never saved twin)", "exploration",
            "Loaded OCP transcribes to the same NLP data.", "Trusted: NLP extraction.", "5/C18"),
    "C19": ("differential monitor to_function vs imperative pipeline on real solves (fresh instance, or one persistent "
            "instance fed through buffers refreshed in place)", "exploration",
            "Function outputs equal imperative results for random argument values.", "Trusted: ipopt determinism.",
            "5/C19"),
    "C20": ("fault-injection monitor with solver-entry sentinel", "fault_enumeration",
            "Catalogue of specification faults x position x method enumerated; each must raise before the solver.",
            "Trusted: sentinel on casadi.Opti.solve; fault catalogue taken from the property statement.", "5/C20"),
}


def main():
    checks = []
    na = []
    for pid in sorted(TABLE):
        tech, cat, text, note, ref = TABLE[pid]
        if os.path.exists(os.path.join(HERE, "rv", "props", pid.lower() + ".py")):
            checks.append({
                "property_id": pid,
                "quick_cmd": "./check %s quick" % pid,
                "thorough_cmd": "./check %s thorough" % pid,
                "evidence_file": "/verif/evidence/%s.json" % pid,
                "replay_cmd_template": "./check --replay {path}",
                "engine": "rv",
                "level_claimed": {"category": cat, "text": text, "design_ref": "DESIGN.md section " + ref},
                "level_note": note,
                "technique": "runtime monitoring: " + tech,
            })
        else:
            na.append({"property_id": pid, "reason": "monitor designed (DESIGN.md section %s) but not built yet; "
                                                     "not claimed until its check exists" % ref})
    man = {
        "version": 1,
        "setup_cmd": "./check --setup",
        "hooks": {
            "guard": "ROCKIT_VERIF",
            "enable": "no in-tree hooks: every monitor is attached from the harness at run time; checks export "
                      "ROCKIT_VERIF=1 and import /repo's working tree directly (VERIF_REPO overrides the path)",
            "baseline_off_cmd": "cd /repo && env -u ROCKIT_VERIF /venv/bin/python -m pytest -ra -q -p no:cacheprovider "
                                "--timeout=900 --continue-on-collection-errors",
            "source_commits": [],
            "add_only": True,
        },
        "engines": [{"name": "rv", "path": "/verif/rv", "serves_properties": [c["property_id"] for c in checks],
                     "kind_free_text": "Python runtime-monitoring harness: generated OCP specifications are transcribed "
                                       "by the real rockit code in worker subprocesses while reference-model, "
                                       "differential and history monitors observe the NLP boundary and read-backs"}],
        "checks": checks,
        "not_applicable": na,
        "notes": "All properties are decided by runtime monitors (DESIGN.md). Sanitizers/race detectors are not used: "
                 "rockit is single-threaded pure Python on a prebuilt CasADi wheel.",
    }
    json.dump(man, open(os.path.join(HERE, "MANIFEST.json"), "w"), indent=1)
    print("MANIFEST.json: %d checks, %d not_applicable" % (len(checks), len(na)))


if __name__ == "__main__":
    main()
