#!/bin/bash
# usage: tools/sweep.sh <tier> <seeds...>   runs every claimed check for each seed, prints non-held results
cd "$(dirname "$0")/.."
tier="$1"; shift
props=$(python3 -c "import json; print(' '.join(c['property_id'] for c in json.load(open('MANIFEST.json'))['checks']))")
for seed in "$@"; do
  for p in $props; do
    out=$(VERIF_SEED=$seed ./check $p $tier 2>&1 | grep -v "^WARN")
    rc=$?
    last=$(echo "$out" | tail -1)
    case "$last" in *"-> held") echo "ok   seed=$seed $last" | cut -c1-160;; *) echo "BAD  seed=$seed $p"; echo "$out" | tail -12 | cut -c1-400;; esac
  done
done
