#!/bin/bash
# Run the repository's own test-suite with the verification guard OFF and compare with BASELINE.json.
# usage: tools/run_baseline.sh [repo_dir]   -> prints missing stable tests; exit 0 iff all 41 stable tests pass
repo="${1:-/repo}"
out="$(mktemp -d)"
cd "$repo" && env -u ROCKIT_VERIF /venv/bin/python -m pytest -ra -q -p no:cacheprovider --timeout=900 \
   --continue-on-collection-errors --junitxml="$out/junit.xml" > "$out/log" 2>&1
/venv/bin/python - "$out/junit.xml" <<'PY'
import json, sys, xml.etree.ElementTree as ET
stable = set(json.load(open('/root/.vp/BASELINE.json'))['stable_pass'])
passed = set()
for tc in ET.parse(sys.argv[1]).getroot().iter('testcase'):
    if not any(ch.tag in ('failure', 'error', 'skipped') for ch in tc):
        passed.add('%s::%s' % (tc.get('classname'), tc.get('name')))
missing = sorted(stable - passed)
print('stable passing: %d / %d; extra passing: %s' % (len(stable & passed), len(stable), sorted(passed - stable)))
for m in missing:
    print('MISSING', m)
sys.exit(1 if missing else 0)
PY
rc=$?
rm -rf "$out"
exit $rc
