"""Dependencies, repository path, output capture, scratch directories, seeds.

Nothing here imports rockit or casadi at module level: the driver process never needs them.
"""
import contextlib
import fcntl
import hashlib
import os
import shutil
import subprocess
import sys
import tempfile

VERIF_DIR = os.path.dirname(os.path.dirname(os.path.abspath(__file__)))
DEPS_DIR = os.path.join(VERIF_DIR, ".deps")
WHEELS = "/opt/veriftools/wheels"
PYTHON = "/venv/bin/python"
GUARD = "ROCKIT_VERIF"
NEEDED = ["networkx", "icontract"]


def repo_dir():
    return os.environ.get("VERIF_REPO", "/repo")


def ensure_deps(verbose=False):
    """Install the offline third-party packages the harness needs into /verif/.deps (idempotent)."""
    marker = os.path.join(DEPS_DIR, ".ok")
    if os.path.exists(marker):
        return DEPS_DIR
    os.makedirs(DEPS_DIR, exist_ok=True)
    lock = open(os.path.join(DEPS_DIR, ".lock"), "w")
    fcntl.flock(lock, fcntl.LOCK_EX)
    try:
        if os.path.exists(marker):
            return DEPS_DIR
        cmd = [PYTHON, "-m", "pip", "install", "--no-index", "--find-links", WHEELS, "--target", DEPS_DIR,
               "--quiet", "--disable-pip-version-check"] + NEEDED
        env = dict(os.environ)
        env["PIP_NO_INDEX"] = "1"
        r = subprocess.run(cmd, env=env, capture_output=True, text=True)
        if r.returncode != 0:
            sys.stderr.write(r.stdout + r.stderr)
            raise SystemExit("ensure_deps: pip install failed")
        open(marker, "w").write("ok\n")
        if verbose:
            print("deps installed into", DEPS_DIR)
    finally:
        fcntl.flock(lock, fcntl.LOCK_UN)
        lock.close()
    return DEPS_DIR


def setup_paths():
    """Put the repository working tree first on sys.path (shadows the editable install), deps after."""
    r = repo_dir()
    for p in (DEPS_DIR, VERIF_DIR, r):
        if p in sys.path:
            sys.path.remove(p)
    sys.path.insert(0, DEPS_DIR)
    sys.path.insert(0, VERIF_DIR)
    sys.path.insert(0, r)
    os.environ[GUARD] = "1"


def import_rockit():
    setup_paths()
    import rockit  # noqa
    here = os.path.realpath(os.path.dirname(rockit.__file__))
    want = os.path.realpath(os.path.join(repo_dir(), "rockit"))
    if here != want:
        raise RuntimeError("rockit imported from %s, expected %s" % (here, want))
    return rockit


@contextlib.contextmanager
def quiet(logfile=None):
    """Redirect fd 1 and 2 (rockit and ipopt print a lot) to a file or /dev/null."""
    sys.stdout.flush()
    sys.stderr.flush()
    target = os.open(logfile or os.devnull, os.O_WRONLY | os.O_CREAT | os.O_APPEND, 0o644)
    saved = (os.dup(1), os.dup(2))
    try:
        os.dup2(target, 1)
        os.dup2(target, 2)
        yield
    finally:
        sys.stdout.flush()
        sys.stderr.flush()
        os.dup2(saved[0], 1)
        os.dup2(saved[1], 2)
        os.close(saved[0])
        os.close(saved[1])
        os.close(target)


def make_scratch(tag="rv"):
    base = os.environ.get("VERIF_SCRATCH") or tempfile.gettempdir()
    return tempfile.mkdtemp(prefix="%s_" % tag, dir=base)


def rm_scratch(path):
    shutil.rmtree(path, ignore_errors=True)


def seed_for(*parts):
    h = hashlib.sha256(("|".join(str(p) for p in parts)).encode()).digest()
    return int.from_bytes(h[:8], "big")


def base_seed():
    try:
        return int(os.environ.get("VERIF_SEED", "0"))
    except ValueError:
        return 0
