"""Normalised partitions of [0, 1] from their definitions (no rockit code)."""
import math

import numpy as np


def uniform(N):
    return [k / N for k in range(N + 1)]


def geometric(N, growth, local):
    """consecutive intervals in constant ratio r; r = growth if local else growth**(1/(N-1)) so that
    last/first = growth"""
    if N == 1:
        return [0.0, 1.0]
    r = growth if local else growth ** (1.0 / (N - 1))
    lens = [r ** k for k in range(N)]
    tot = sum(lens)
    out = [0.0]
    for l in lens:
        out.append(out[-1] + l / tot)
    out[-1] = 1.0
    return out


def density(N, rho):
    """equidistribute: cumulative density at node k equals k/N of the total"""
    from scipy import integrate, optimize
    total = integrate.quad(rho, 0.0, 1.0, epsabs=1e-13, epsrel=1e-13, limit=200)[0]

    def cum(x):
        return integrate.quad(rho, 0.0, x, epsabs=1e-13, epsrel=1e-13, limit=200)[0]

    out = [0.0]
    for k in range(1, N):
        target = total * k / N
        out.append(optimize.brentq(lambda x: cum(x) - target, 0.0, 1.0, xtol=1e-14))
    out.append(1.0)
    return out


def normalized(g, N):
    from ..gen import build
    cls = g.get("cls", "Uniform")
    if cls == "Uniform":
        return uniform(N)
    if cls == "Geometric":
        return geometric(N, g["growth"], bool(g.get("local", False)))
    if cls == "Function":
        return list(build.GRID_FUNS[g["fun"]](N))
    if cls == "Density":
        return density(N, lambda tau: build.density_np(g["density"], tau))
    if cls == "DenseEdges":
        import casadi as ca
        ef = g.get("edge_frac", 0.1)
        mult = g.get("multiplier", 10)
        interp = ca.interpolant("interp", "bspline", [[0.0, ef, 1 - ef, 1.0]], [mult, 1.0, 1.0, mult],
                                {"algorithm": "smooth_linear"})
        return density(N, lambda tau: float(interp(tau)))
    raise ValueError(cls)


def control_grid(g, N, t0, T):
    n = normalized(g, N)
    return np.array([t0 + T * x for x in n])


def integrator_grid(tc, M):
    out = []
    for k in range(len(tc) - 1):
        for l in range(M):
            out.append(tc[k] + (tc[k + 1] - tc[k]) * l / M)
    out.append(tc[-1])
    return np.array(out)
