"""Collocation points and Lagrange weights, derived independently of CasADi (numpy only)."""
import functools

import numpy as np
from numpy.polynomial import legendre as L


@functools.lru_cache(maxsize=None)
def points(d, scheme):
    """Collocation points on (0, 1]: Gauss-Legendre or Radau IIA (right end point included)."""
    if scheme == "legendre":
        x = L.legroots([0] * d + [1])
    elif scheme == "radau":
        # right Radau points: roots of P_d - P_{d-1}  (x = +1 is one of them)
        c = np.zeros(d + 1)
        c[d] = 1.0
        c[d - 1] = -1.0
        x = L.legroots(c)
    else:
        raise ValueError(scheme)
    tau = np.sort((np.real(x) + 1.0) / 2.0)
    return tuple(float(t) for t in tau)


def lagrange_basis(nodes):
    """list of numpy.poly1d, ell_j(nodes[i]) = delta_ij"""
    out = []
    for j, tj in enumerate(nodes):
        p = np.poly1d([1.0])
        for r, tr in enumerate(nodes):
            if r != j:
                p = p * np.poly1d([1.0, -tr]) / (tj - tr)
        out.append(p)
    return out


@functools.lru_cache(maxsize=None)
def coeffs(d, scheme):
    """C[r][j] = ell_r'(tau_j)  (r = 0..d over nodes {0,tau}, j = 1..d),
       D[r]    = ell_r(1),
       B[j]    = integral_0^1 of the Lagrange basis over the d collocation points only."""
    tau = list(points(d, scheme))
    nodes = [0.0] + tau
    ell = lagrange_basis(nodes)
    C = np.array([[np.polyder(ell[r])(tau[j]) for j in range(d)] for r in range(d + 1)])
    D = np.array([ell[r](1.0) for r in range(d + 1)])
    ell_c = lagrange_basis(tau)
    B = np.array([np.polyint(p)(1.0) - np.polyint(p)(0.0) for p in ell_c])
    return C, D, B


def interp_through_roots(d, scheme, vals, at):
    """Value at normalised time `at` of the degree d-1 polynomial through (tau_j, vals[j])."""
    tau = list(points(d, scheme))
    ell = lagrange_basis(tau)
    return sum(vals[j] * ell[j](at) for j in range(d))


def interp_full(d, scheme, vals, at):
    """Value at normalised time `at` of the degree d polynomial through (0, vals[0]), (tau_j, vals[j])."""
    nodes = [0.0] + list(points(d, scheme))
    ell = lagrange_basis(nodes)
    return sum(vals[j] * ell[j](at) for j in range(d + 1))
