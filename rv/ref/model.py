"""Reference model of the transcription (numpy only), written from the property statements.

Given a stage specification and the physical values at a decision vector (rv.obs.coords.ReadBack), it
produces what the NLP must contain: dynamic residuals, constraint instances (as slacks), objective value.
"""
import json
import math

import numpy as np

from ..gen import expr as E
from . import colloc


class RefDrop(Exception):
    """An instance reaches outside the horizon (offset operands) and must be dropped."""


def key(node):
    return json.dumps(node, sort_keys=True)


def _shape_of(s):
    return tuple(s["shape"])


class Env:
    """Evaluation context of one point."""

    def __init__(self, model, k=None, node=None, x=None, z=None, t=None, DT=None, DTc=None, xq=None):
        self.m = model
        self.k = k          # control-interval index for controls and per-interval quantities (0..N-1)
        self.node = node    # control-node index (0..N) when the point is a control-grid node
        self.x = x
        self.z = z
        self._t = t
        self._DT = DT
        self._DTc = DTc
        self.xq = xq

    @property
    def t(self):
        if self._t is None:
            raise RuntimeError("time used outside a signal context")
        return self._t

    @property
    def T(self):
        return self.m.T

    @property
    def t0(self):
        return self.m.t0

    @property
    def DT(self):
        if self._DT is None:
            raise RuntimeError("DT used where undefined")
        return self._DT

    @property
    def DTc(self):
        if self._DTc is None:
            raise RuntimeError("DT_control used where undefined")
        return self._DTc

    def sym(self, name, i, j):
        m = self.m
        kind = m.kind[name]
        if kind == "state":
            if self.x is None:
                raise RuntimeError("state used outside a signal context")
            return float(self.x[name][i, j])
        if kind == "alg":
            return float(self.z[name][i, j])
        if kind == "control":
            return float(m.ph["uc:" + name][self.k][i, j])
        if kind == "qstate":
            return float(self.xq[name][i, j])
        s = m.decl[name]
        plus = bool(s.get("include_last"))
        if kind == "param":
            if not s.get("grid"):
                return float(m.pval[name][i, j])
            blk = (self.node if (plus and self.node is not None) else self.k)
            return float(m.pval[name][blk][i, j])
        if kind == "var":
            if not s.get("grid"):
                return float(m.ph["v:" + name][i, j])
            blk = (self.node if (plus and self.node is not None) else self.k)
            return float(m.ph["vc:" + name][blk][i, j])
        raise KeyError(name)

    def placeholder(self, kind, expr):
        return self.m.placeholder(kind, expr)

    def offset(self, expr, o):
        if self.node is None:
            raise RuntimeError("offset used away from the control grid")
        return E.ev(expr, self.m.env_node(self.node + o))


def _blocks(value, shape, nblk):
    arr = np.array(value, dtype=float)
    n, mcols = shape
    arr = arr.reshape(n, -1)
    assert arr.shape[1] == mcols * nblk, (arr.shape, shape, nblk)
    return [arr[:, b * mcols:(b + 1) * mcols] for b in range(nblk)]


class RefModel:
    def __init__(self, spec, phys, pvals=None):
        self.sp = spec
        self.ph = phys
        mt = spec["method"]
        self.cls = mt["cls"]
        self.N = mt["N"]
        self.M = mt.get("M", 1)
        self.intg = mt.get("intg", "rk")
        self.dyn = spec.get("dyn")
        self.tc = np.array(phys["tc"], dtype=float)
        self.h = np.diff(self.tc)
        self.T = phys["T"]
        self.t0 = phys["t0"]
        self.kind = {}
        self.decl = {}
        for s in spec.get("states", []):
            self.kind[s["name"]] = "qstate" if s.get("quad") else "state"
            self.decl[s["name"]] = s
        for s in spec.get("controls", []):
            self.kind[s["name"]] = "control"
            self.decl[s["name"]] = s
        for s in spec.get("algebraics", []):
            self.kind[s["name"]] = "alg"
            self.decl[s["name"]] = s
        for s in spec.get("params", []):
            self.kind[s["name"]] = "param"
            self.decl[s["name"]] = s
        for s in spec.get("variables", []):
            self.kind[s["name"]] = "var"
            self.decl[s["name"]] = s
        self.states = [s for s in spec.get("states", []) if not s.get("quad")]
        self.qstates = [s for s in spec.get("states", []) if s.get("quad")]
        self.algs = spec.get("algebraics", [])
        # parameter values come from the specification (what the user assigned), never from the NLP
        self.pval = {}
        for p in spec.get("params", []):
            val = (pvals or {}).get(p["name"], p.get("value"))
            if val is None:
                continue
            if not p.get("grid"):
                self.pval[p["name"]] = np.array(val, dtype=float).reshape(_shape_of(p))
            else:
                nblk = self.N + (1 if p.get("include_last") else 0)
                self.pval[p["name"]] = _blocks(val, _shape_of(p), nblk)
        # integrands (ocp.integral(e)) present anywhere in the specification
        self.integrands = {}
        for n in self._all_nodes():
            for sub in E.walk(n):
                if sub[0] == "integral":
                    self.integrands.setdefault(key(sub[1]), sub[1])
        self._traj = None
        if self.cls == "DC":
            self.d = mt.get("degree", 4)
            self.scheme = mt.get("scheme", "radau")
            self.tau = colloc.points(self.d, self.scheme)
            self.C, self.D, self.B = colloc.coeffs(self.d, self.scheme)

    # ------------------------------------------------------------------ helpers
    def _all_nodes(self):
        sp = self.sp
        for t in sp.get("objective", []):
            yield t
        for c in sp.get("constraints", []):
            for fld in ("lhs", "rhs", "lb", "ub"):
                for n in c.get(fld, []) or []:
                    yield n
        for extra in sp.get("extra_nodes", []):
            yield extra

    def kint(self, node):
        return min(node, self.N - 1)

    def node_state(self, node):
        if self.cls == "SS":
            return self.traj()["Xnode"][node]
        return {s["name"]: self.ph["xc:" + s["name"]][node] for s in self.states}

    def dc_z_at(self, idx, tau):
        """DirectCollocation: algebraic values on integration interval `idx` at normalised time tau, from the polynomial
        through the values at the collocation roots (the decision variables) -- independent of rockit's node values"""
        d = self.d
        w = []
        for j in range(d):
            lj = 1.0
            for r in range(d):
                if r != j:
                    lj *= (tau - self.tau[r]) / (self.tau[j] - self.tau[r])
            w.append(lj)
        out = {}
        for s in self.algs:
            nm = "zr:" + s["name"]
            if nm in self.ph:
                out[s["name"]] = sum(w[j] * np.asarray(self.ph[nm][idx * d + j], dtype=float) for j in range(d))
        return out

    def node_alg(self, node):
        if self.cls == "DC" and self.algs and all(("zr:" + s["name"]) in self.ph for s in self.algs):
            if node < self.N:
                return self.dc_z_at(node * self.M, 0.0)
            return self.dc_z_at(self.N * self.M - 1, 1.0)
        out = {}
        for s in self.algs:
            nm = "zc:" + s["name"]
            if nm in self.ph:
                out[s["name"]] = self.ph[nm][node]
        return out

    def node_quad(self, node):
        if not self.qstates:
            return None
        if self.cls == "DC":
            if not hasattr(self, "_dcint"):
                self._dcint = self.dc_integrals()
            return self._dcint[1][node]
        tr = self.traj()
        return {s["name"]: tr["Qnode"][node][s["name"]] for s in self.qstates}

    def env_node(self, node):
        if node < 0 or node > self.N:
            raise RefDrop()
        k = self.kint(node)
        return Env(self, k=k, node=node, x=self.node_state(node), z=self.node_alg(node), t=float(self.tc[node]),
                   DT=float(self.h[k] / self.M), DTc=float(self.h[k]), xq=self.node_quad(node))

    def env_global(self):
        return Env(self, k=None, node=None)

    def env_free(self, k, x, t, z=None, with_DT=False):
        return Env(self, k=k, node=None, x=x, z=z, t=t,
                   DT=float(self.h[k] / self.M) if with_DT else None,
                   DTc=float(self.h[k]) if with_DT else None)

    # ------------------------------------------------------------------ model functions
    def f(self, env):
        """right-hand side (or update map) for every state, dict name -> array"""
        out = {}
        for s in self.states:
            mat = self.sp["rhs"][s["name"]]
            out[s["name"]] = np.array([[E.ev(e, env) for e in row] for row in mat], dtype=float)
        return out

    def fq(self, env):
        """derivatives of user-declared quadrature states"""
        out = {}
        for s in self.qstates:
            mat = self.sp["rhs"][s["name"]]
            out[s["name"]] = np.array([[E.ev(e, env) for e in row] for row in mat], dtype=float)
        return out

    def g(self, env):
        """integrand values, dict key -> float"""
        return {kk: E.ev(n, env) for kk, n in self.integrands.items()}

    def alg(self, env):
        return [E.ev(a["expr"], env) / (a.get("scale") or 1.0) for a in self.sp.get("alg", [])]

    @staticmethod
    def _axpy(x, a, d):
        return {n: x[n] + a * d[n] for n in x}

    # ------------------------------------------------------------------ shooting schemes
    def _step(self, k, x, t, dt):
        """one integrator step of the chosen scheme: returns (x_next, quad increments, user-quad increments)"""
        if self.dyn == "next":
            env = Env(self, k=k, x=x, t=t, DT=dt, DTc=float(self.h[k]))
            return self.f(env), {kk: 0.0 for kk in self.integrands}, self.fq(env)
        if self.intg == "expl_euler":
            env = self.env_free(k, x, t)
            k1 = self.f(env)
            q = self.g(env)
            uq = self.fq(env)
            return self._axpy(x, dt, k1), {kk: dt * v for kk, v in q.items()}, {n: dt * v for n, v in uq.items()}
        if self.intg == "rk":
            e1 = self.env_free(k, x, t)
            k1 = self.f(e1)
            e2 = self.env_free(k, self._axpy(x, dt / 2, k1), t + dt / 2)
            k2 = self.f(e2)
            e3 = self.env_free(k, self._axpy(x, dt / 2, k2), t + dt / 2)
            k3 = self.f(e3)
            e4 = self.env_free(k, self._axpy(x, dt, k3), t + dt)
            k4 = self.f(e4)
            xn = {n: x[n] + dt / 6 * (k1[n] + 2 * k2[n] + 2 * k3[n] + k4[n]) for n in x}
            q1, q2, q3, q4 = self.g(e1), self.g(e2), self.g(e3), self.g(e4)
            dq = {kk: dt / 6 * (q1[kk] + 2 * q2[kk] + 2 * q3[kk] + q4[kk]) for kk in q1}
            u1, u2, u3, u4 = self.fq(e1), self.fq(e2), self.fq(e3), self.fq(e4)
            duq = {n: dt / 6 * (u1[n] + 2 * u2[n] + 2 * u3[n] + u4[n]) for n in u1}
            return xn, dq, duq
        raise NotImplementedError(self.intg)

    def propagate(self, k, xstart):
        """M steps over control interval k -> (end state, [start state of each step], quad incr, user quad incr)"""
        dt = float(self.h[k] / self.M)
        x = xstart
        subs = []
        dq_tot = {kk: 0.0 for kk in self.integrands}
        duq_tot = None
        uq_sub = []
        for l in range(self.M):
            subs.append(x)
            t = float(self.tc[k] + l * dt)
            x, dq, duq = self._step(k, x, t, dt)
            for kk in dq_tot:
                dq_tot[kk] += dq[kk]
            if duq_tot is None:
                duq_tot = {n: np.zeros_like(v) for n, v in duq.items()}
            uq_sub.append({n: v.copy() for n, v in duq_tot.items()})
            if self.dyn == "next":
                # discrete-time quadrature states are *replaced* by their update each step
                duq_tot = {n: duq_tot[n] + v for n, v in duq.items()}
            else:
                duq_tot = {n: duq_tot[n] + v for n, v in duq.items()}
        return x, subs, dq_tot, duq_tot or {}, uq_sub

    def traj(self):
        """Shooting: per-interval propagation.  MS starts every interval at the node variables,
        SS at the propagated state."""
        if self._traj is not None:
            return self._traj
        assert self.cls in ("MS", "SS")
        Xnode = [None] * (self.N + 1)
        ends, subs, quads = [], [], {kk: 0.0 for kk in self.integrands}
        Qnode = [{s["name"]: np.zeros(_shape_of(s)) for s in self.qstates}]
        Qsub = []
        x = {s["name"]: self.ph["xc:" + s["name"]][0] for s in self.states}
        Xnode[0] = x
        for k in range(self.N):
            if self.cls == "MS":
                x = {s["name"]: self.ph["xc:" + s["name"]][k] for s in self.states}
                Xnode[k] = x
            xe, sb, dq, duq, uq_sub = self.propagate(k, x)
            ends.append(xe)
            subs.append(sb)
            for kk in quads:
                quads[kk] += dq[kk]
            Qsub.append([{n: Qnode[-1][n] + v for n, v in u.items()} for u in uq_sub])
            Qnode.append({n: Qnode[-1][n] + duq[n] for n in Qnode[-1]})
            if self.cls == "SS":
                x = xe
                Xnode[k + 1] = xe
        if self.cls == "MS":
            Xnode[self.N] = {s["name"]: self.ph["xc:" + s["name"]][self.N] for s in self.states}
        self._traj = {"Xnode": Xnode, "ends": ends, "subs": subs, "quads": quads, "Qnode": Qnode, "Qsub": Qsub}
        return self._traj

    # ------------------------------------------------------------------ collocation
    def dc_interval(self, k, i):
        """values on integration interval (k, i): node list [x_start, x_root_1..d], z at roots, root times, h"""
        d = self.d
        idx = k * self.M + i
        Xc = [{s["name"]: self.ph["xi:" + s["name"]][idx] for s in self.states}]
        Z = []
        tr = []
        for j in range(d):
            Xc.append({s["name"]: self.ph["xr:" + s["name"]][idx * d + j] for s in self.states})
            Z.append({s["name"]: self.ph["zr:" + s["name"]][idx * d + j] for s in self.algs})
        h = float(self.h[k] / self.M)
        tr = [float(self.tc[k] + i * h + self.tau[j] * h) for j in range(d)]   # collocation times, independent
        if i == self.M - 1:
            xnext = {s["name"]: self.ph["xc:" + s["name"]][k + 1] for s in self.states}
        else:
            xnext = {s["name"]: self.ph["xi:" + s["name"]][idx + 1] for s in self.states}
        return Xc, Z, tr, h, xnext

    def dc_root_env(self, k, i, j, Xc, Z, tr):
        return Env(self, k=k, node=None, x=Xc[j + 1], z=Z[j], t=tr[j], DT=float(self.h[k] / self.M),
                   DTc=float(self.h[k]))

    def dc_integrals(self):
        tot = {kk: 0.0 for kk in self.integrands}
        uq = {s["name"]: np.zeros(_shape_of(s)) for s in self.qstates}
        Qnode = [{n: v.copy() for n, v in uq.items()}]
        self._dc_qsub = []
        for k in range(self.N):
            for i in range(self.M):
                self._dc_qsub.append({n: v.copy() for n, v in uq.items()})
                Xc, Z, tr, h, _ = self.dc_interval(k, i)
                for j in range(self.d):
                    env = self.dc_root_env(k, i, j, Xc, Z, tr)
                    gv = self.g(env)
                    for kk in tot:
                        tot[kk] += self.B[j] * h * gv[kk]
                    fq = self.fq(env)
                    for n in uq:
                        uq[n] = uq[n] + self.B[j] * h * fq[n]
            Qnode.append({n: v.copy() for n, v in uq.items()})
        return tot, Qnode

    # ------------------------------------------------------------------ what the NLP must contain
    def state_scale(self, s):
        sc = s.get("scale")
        if sc is None:
            return np.ones(_shape_of(s))
        if isinstance(sc, (int, float)):
            return np.ones(_shape_of(s)) * sc
        return np.array(sc, dtype=float).reshape(_shape_of(s))

    def der_scale(self, s):
        sc = s.get("der_scale")
        if sc is None:
            return np.ones(_shape_of(s))
        if isinstance(sc, (int, float)):
            return np.ones(_shape_of(s)) * sc
        return np.array(sc, dtype=float).reshape(_shape_of(s))

    def dyn_atoms(self):
        """expected equality residual magnitudes of the dynamic rows (scaled as the rows are)"""
        out = []
        if self.cls == "MS":
            tr = self.traj()
            for k in range(self.N):
                for s in self.states:
                    gap = self.ph["xc:" + s["name"]][k + 1] - tr["ends"][k][s["name"]]
                    out.extend(("eq", abs(v)) for v in (gap / self.state_scale(s)).reshape(-1))
            return out
        if self.cls == "SS":
            return out
        # DirectCollocation
        for k in range(self.N):
            for i in range(self.M):
                Xc, Z, tr, h, xnext = self.dc_interval(k, i)
                for j in range(self.d):
                    env = self.dc_root_env(k, i, j, Xc, Z, tr)
                    fv = self.f(env)
                    for s in self.states:
                        n = s["name"]
                        pdot = sum(self.C[r][j] * Xc[r][n] for r in range(self.d + 1)) / h
                        out.extend(("eq", abs(v)) for v in ((pdot - fv[n]) / self.der_scale(s)).reshape(-1))
                    if self.algs:
                        zs = np.concatenate([self.state_scale(s).reshape(-1, order="F") for s in self.algs])
                        av = self.alg(env)
                        out.extend(("eq", abs(a / zs[ii])) for ii, a in enumerate(av))
                for s in self.states:
                    n = s["name"]
                    pend = sum(self.D[r] * Xc[r][n] for r in range(self.d + 1))
                    out.extend(("eq", abs(v)) for v in ((pend - xnext[n]) / self.state_scale(s)).reshape(-1))
        return out

    def amplification(self):
        """SingleShooting: how strongly the propagated states react to a 1e-9 relative perturbation of x(t0)
        (iterated nonlinear maps can be chaotic: round-off differences between two correct evaluations grow alike)"""
        if self.cls != "SS":
            return 1.0
        base = self.traj()["Xnode"][self.N]
        ph2 = dict(self.ph)
        for s in self.states:
            a = np.array(self.ph["xc:" + s["name"]], dtype=float).copy()
            a[0] = a[0] * (1 + 1e-9) + 1e-9
            ph2["xc:" + s["name"]] = a
        other = RefModel(self.sp, ph2, None)
        other.pval = self.pval
        end = other.traj()["Xnode"][self.N]
        num = max(float(np.max(np.abs(end[n] - base[n]))) for n in base)
        den = 1e-9 * (1 + max(float(np.max(np.abs(self.ph["xc:" + s["name"]][0]))) for s in self.states))
        amp = num / den
        return amp if np.isfinite(amp) else float("inf")

    def ss_states(self):
        """SingleShooting: the recursion the read-back must report (list over nodes of dict name->array)"""
        return self.traj()["Xnode"]

    def placeholder(self, kind, expr):
        if kind == "at_t0":
            return E.ev(expr, self.env_node(0))
        if kind == "at_tf":
            return E.ev(expr, self.env_node(self.N))
        if kind == "sum":
            return sum(E.ev(expr, self.env_node(k)) for k in range(self.N))
        if kind == "sum+":
            return sum(E.ev(expr, self.env_node(k)) for k in range(self.N + 1))
        if kind == "intc":
            return sum(float(self.h[k]) * E.ev(expr, self.env_node(k)) for k in range(self.N))
        if kind == "integral":
            if self.cls == "DC":
                if not hasattr(self, "_dcint"):
                    self._dcint = self.dc_integrals()
                return self._dcint[0][key(expr)]
            return self.traj()["quads"][key(expr)]
        raise ValueError(kind)

    def objective(self):
        env = self.env_global()
        return sum(E.ev(t, env) for t in self.sp.get("objective", []))

    # constraint instances -------------------------------------------------------------------
    def _slacks(self, c, env):
        sc_all = c.get("scale") or 1.0
        scl = sc_all if isinstance(sc_all, list) else [sc_all] * len(c["lhs"])
        out = []
        form = c["form"]
        if form == "box":
            for e, lb, ub, sc in zip(c["lhs"], c["lb"], c["ub"], scl):
                v, l, u = E.ev(e, env), E.ev(lb, env), E.ev(ub, env)
                if np.isfinite(l):
                    out.append(("ge", (v - l) / sc))
                if np.isfinite(u):
                    out.append(("ge", (u - v) / sc))
            return out
        for a, b, sc in zip(c["lhs"], c["rhs"], scl):
            va, vb = E.ev(a, env), E.ev(b, env)
            if form == "le":
                out.append(("ge", (vb - va) / sc))
            elif form == "ge":
                out.append(("ge", (va - vb) / sc))
            else:
                out.append(("eq", abs(va - vb) / sc))
        return out

    def constraint_is_signal(self, c):
        sig = {n for n, kd in self.kind.items() if kd in ("state", "control", "alg", "qstate")}
        for n, kd in self.kind.items():
            if kd in ("param", "var") and self.decl[n].get("grid") == "control":
                sig.add(n)
        nodes = []
        for fld in ("lhs", "rhs", "lb", "ub"):
            nodes.extend(c.get(fld, []) or [])
        return any(E.is_signal(n, sig) or E.uses(n, "off") for n in nodes)

    def constraint_atoms(self, c):
        """list of ('eq'|'ge', slack) for all instances the statement prescribes; also returns #instances"""
        grid = c.get("grid")
        if not self.constraint_is_signal(c):
            return self._slacks(c, self.env_global()), 1
        if grid is None:
            grid = "control"
        inc_first = c.get("include_first", True)
        inc_last = c.get("include_last", True)
        atoms = []
        count = 0
        if grid == "control":
            nodes = list(range(self.N + 1))
            if not inc_first:
                nodes = nodes[1:]
            if not inc_last:
                nodes = [n for n in nodes if n != self.N]
            for nd in nodes:
                try:
                    atoms.extend(self._slacks(c, self.env_node(nd)))
                    count += 1
                except RefDrop:
                    pass
            return atoms, count
        if grid == "integrator":
            for k in range(self.N):
                for l in range(self.M):
                    if k == 0 and l == 0 and not inc_first:
                        continue
                    atoms.extend(self._slacks(c, self.env_integrator(k, l)))
                    count += 1
            if inc_last:
                atoms.extend(self._slacks(c, self.env_node(self.N)))
                count += 1
            return atoms, count
        if grid == "integrator_roots":
            assert self.cls == "DC"
            for k in range(self.N):
                for i in range(self.M):
                    Xc, Z, tr, h, _ = self.dc_interval(k, i)
                    for j in range(self.d):
                        atoms.extend(self._slacks(c, self.dc_root_env(k, i, j, Xc, Z, tr)))
                        count += 1
            return atoms, count
        raise ValueError(grid)

    def env_integrator(self, k, l):
        dt = float(self.h[k] / self.M)
        t = float(self.tc[k] + l * dt)
        if self.cls == "DC":
            idx = k * self.M + l
            x = {s["name"]: self.ph["xi:" + s["name"]][idx] for s in self.states}
            if self.algs and all(("zr:" + s["name"]) in self.ph for s in self.algs):
                z = self.dc_z_at(idx, 0.0)
            else:
                z = {s["name"]: self.ph["zi:" + s["name"]][idx] for s in self.algs if ("zi:" + s["name"]) in self.ph}
            xq = None
        else:
            tr = self.traj()
            x = tr["subs"][k][l]
            z = {}
            xq = tr["Qsub"][k][l] if self.qstates else None
        return Env(self, k=k, node=None, x=x, z=z, t=t, DT=dt, DTc=float(self.h[k]), xq=xq)
