"""Section 6 of DESIGN.md: icontract post-conditions attached from the harness to rockit's helpers.

Conditions *record* (they never abort the observed call): a broken contract is appended to VIOLATIONS and the
condition returns True.  Evaluation counts go to COUNTS; the worker drains both after every case.
"""
import numpy as np

VIOLATIONS = []
COUNTS = {}
_installed = False


def _count(name):
    COUNTS[name] = COUNTS.get(name, 0) + 1


def _fail(name, detail):
    if len(VIOLATIONS) < 20:
        VIOLATIONS.append({"kind": "contract", "mech": "contract|" + name, "detail": detail})


def drain():
    global VIOLATIONS, COUNTS
    v, c = VIOLATIONS, COUNTS
    VIOLATIONS, COUNTS = [], {}
    return v, c


# ------------------------------------------------------------------------------------------------ conditions
def normalized_is_partition(self, N, result):
    _count("grid.normalized")
    try:
        r = [float(x) for x in result]
        ok = len(r) == N + 1 and r[0] == 0 and abs(r[-1] - 1) < 1e-12 and all(b > a for a, b in zip(r, r[1:]))
        name = type(self).__name__
        if ok and name == "UniformGrid":
            d = np.diff(r)
            ok = float(np.max(np.abs(d - 1.0 / N))) < 1e-12
        if ok and name == "GeometricGrid" and N > 1:
            d = np.diff(r)
            ratios = d[1:] / d[:-1]
            g = self._growth_factor
            if self.local:
                ok = float(np.max(np.abs(ratios - g))) < 1e-9 * (1 + g)
            else:
                ok = float(np.max(np.abs(ratios - ratios[0]))) < 1e-9 * (1 + ratios[0]) and abs(d[-1] / d[0] - g) < 1e-9 * (1 + g)
        if not ok:
            _fail("grid.normalized|" + name, "%s.normalized(%d) = %s" % (name, N, r))
    except Exception as e:  # noqa
        _fail("grid.normalized|exception", repr(e))
    return True


def dm2numpy_layout(dm, expr_shape, tdim, result):
    _count("DM2numpy")
    try:
        if tdim is None:
            return True
        want = (tdim,) + tuple(e for e in expr_shape if e != 1)
        arr = np.array(dm.toarray() if hasattr(dm, "toarray") else dm, dtype=float)
        arr = arr.reshape(expr_shape[0], -1)
        result = np.asarray(result)
        ok = tuple(result.shape) == want
        if ok:
            n, m = expr_shape
            full = np.asarray(result, dtype=float).reshape(tdim, n, m)
            for i in (0, tdim // 2, tdim - 1):
                blk = arr[:, i * m:(i + 1) * m]
                if not np.allclose(full[i], blk, equal_nan=True):
                    ok = False
        if not ok:
            _fail("DM2numpy", "expr_shape=%s tdim=%s result shape %s (expected %s) or entry [i,r,c] is not element "
                              "(r,c) at time i" % (expr_shape, tdim, getattr(result, "shape", None), want))
    except Exception as e:  # noqa
        _fail("DM2numpy|exception", repr(e))
    return True


def basis_partition_of_unity(result):
    _count("eval_on_knots")
    try:
        import casadi as ca
        B = result[1]
        if isinstance(B, ca.DM):
            b = np.array(B)
            if b.size and (np.max(np.abs(b.sum(axis=0) - 1)) > 1e-9 or np.min(b) < -1e-12):
                _fail("eval_on_knots", "basis columns sum to %s, min entry %g" % (np.round(b.sum(axis=0), 6)[:6], np.min(b)))
    except Exception as e:  # noqa
        _fail("eval_on_knots|exception", repr(e))
    return True


def greville_in_range(xi, d, result):
    _count("get_greville_points")
    try:
        import casadi as ca
        if isinstance(result, ca.DM) and isinstance(xi, ca.DM):
            g = np.array(result).reshape(-1)
            x = np.array(xi).reshape(-1)
            n = len(x) - 1
            ok = len(g) == (n if d == 0 else n + d) and np.all(np.diff(g) >= -1e-12) and g[0] >= x[0] - 1e-12 and g[-1] <= x[-1] + 1e-12
            if not ok:
                _fail("get_greville_points", "xi=%s d=%d -> %s" % (x, d, g))
    except Exception as e:  # noqa
        _fail("get_greville_points|exception", repr(e))
    return True


def transcribe_lists(self, stage, phase, result):
    try:
        if phase == 1 and type(self).__name__ in ("MultipleShooting", "SingleShooting", "DirectCollocation"):
            _count("transcribe.lists")
            N, M = self.N, self.M
            # (DirectCollocation keeps N*M integrator states, the shooting methods append the final one)
            ok = len(self.X) == N + 1 and len(self.U) == N and len(self.xk) in (N * M, N * M + 1) and \
                len(self.integrator_grid) == N
            if ok and self.poly_coeff is not None:
                ok = len(self.poly_coeff) == N * M
            if not ok:
                _fail("transcribe.lists|" + type(self).__name__,
                      "after phase 1: len(X)=%d (N+1=%d), len(U)=%d (N=%d), len(xk)=%d (N*M+1=%d), poly_coeff=%s" % (
                          len(self.X), N + 1, len(self.U), N, len(self.xk), N * M + 1,
                          None if self.poly_coeff is None else len(self.poly_coeff)))
    except Exception as e:  # noqa
        _fail("transcribe.lists|exception", repr(e))
    return True


def _template_state(self):
    return (len(self.states), len(self.controls), len(self.algebraics), sum(len(v) for v in self._constraints.values()),
            str(self._objective), len(self._placeholders), len(self._initial.keys()))


def clone_leaves_template(self, OLD, result):
    _count("Stage.clone")
    try:
        if OLD.tstate != _template_state(self):
            _fail("Stage.clone", "template changed by clone: %s -> %s" % (OLD.tstate, _template_state(self)))
        if result is self:
            _fail("Stage.clone", "clone returned the template itself")
    except Exception as e:  # noqa
        _fail("Stage.clone|exception", repr(e))
    return True


class ContractBroken(Exception):
    pass


def install():
    """attach the contracts (idempotent)"""
    global _installed
    if _installed:
        return True
    try:
        import icontract
    except Exception:
        return False
    import rockit
    from rockit import sampling_method as sm, casadi_helpers as ch, stage as stg, solution as sol
    from rockit.splines import micro_spline as ms
    from rockit import spline_method as spm

    def ens(cond):
        return icontract.ensure(cond, error=ContractBroken)

    for cls in (sm.UniformGrid, sm.GeometricGrid, sm.FunctionGrid, sm.DensityGrid):
        if "normalized" in cls.__dict__:
            cls.normalized = ens(normalized_is_partition)(cls.__dict__["normalized"])
    wrapped = ens(dm2numpy_layout)(ch.DM2numpy)
    for mod in (ch, stg, sol, sm):
        if getattr(mod, "DM2numpy", None) is not None:
            mod.DM2numpy = wrapped
    weok = ens(basis_partition_of_unity)(ms.eval_on_knots)
    wgrev = ens(greville_in_range)(ms.get_greville_points)
    for mod in (ms, sm, spm):
        if hasattr(mod, "eval_on_knots"):
            mod.eval_on_knots = weok
        if hasattr(mod, "get_greville_points"):
            mod.get_greville_points = wgrev
    sm.SamplingMethod.transcribe = ens(transcribe_lists)(sm.SamplingMethod.transcribe)
    stg.Stage.clone = icontract.snapshot(_template_state, name="tstate")(ens(clone_leaves_template)(stg.Stage.clone))
    _installed = True
    return True
