"""§1.3 of DESIGN.md: what a decision vector *means*, read through the public API (sample / value of
primitive symbols) and turned into one CasADi function  RB(w, p) -> named arrays."""
import numpy as np


def _blocks(arr, m):
    """(n, m*K) horizontally stacked n-by-m blocks -> array (K, n, m)."""
    arr = np.array(arr, dtype=float)
    if arr.ndim == 1:
        arr = arr.reshape(1, -1)
    n = arr.shape[0]
    K = arr.shape[1] // m
    return np.stack([arr[:, k * m:(k + 1) * m] for k in range(K)], axis=0)


class ReadBack:
    """Physical read-backs of one stage of a transcribed OCP."""

    def __init__(self, built, view, want=("control",), stage=None, extra=None):
        import casadi as ca
        self.built = built
        self.view = view
        st = stage if stage is not None else built.stage
        sp = built.spec
        self.names = []
        self.shapes = {}
        exprs = []

        def add(name, e, m=1):
            self.names.append(name)
            self.shapes[name] = m
            exprs.append(ca.MX(e))

        t_c, tv = st.sample(st.t, grid="control")
        add("tc", t_c)
        add("tc_val", tv)
        add("T", st.value(st.T))
        add("t0", st.value(st.t0))
        kinds = (("states", "x"), ("controls", "u"), ("algebraics", "z"))
        for key, tag in kinds:
            for s in sp.get(key, []):
                if key == "algebraics" and sp["method"]["cls"] != "DC" and sp["method"].get("intg") not in (
                        "idas", "collocation"):
                    continue
                _, v = st.sample(built.syms[s["name"]], grid="control")
                add("%sc:%s" % ("q" if s.get("quad") else tag, s["name"]), v, s["shape"][1])
        for s in sp.get("variables", []):
            if s.get("grid") in ("control",):
                _, v = st.sample(built.syms[s["name"]], grid="control")
                add("vc:%s" % s["name"], v, s["shape"][1])
            elif not s.get("grid"):
                add("v:%s" % s["name"], st.value(built.syms[s["name"]]), s["shape"][1])
        for s in sp.get("params", []):
            if s.get("grid") in ("control",):
                _, v = st.sample(built.syms[s["name"]], grid="control")
                add("pc:%s" % s["name"], v, s["shape"][1])
            elif not s.get("grid"):
                add("p:%s" % s["name"], st.value(built.syms[s["name"]]), s["shape"][1])
        if "integrator" in want:
            t_i, _ = st.sample(st.t, grid="integrator")
            add("ti", t_i)
            for s in sp.get("states", []):
                _, v = st.sample(built.syms[s["name"]], grid="integrator")
                add("%si:%s" % ("q" if s.get("quad") else "x", s["name"]), v, s["shape"][1])
            if sp["method"]["cls"] == "DC":
                for s in sp.get("algebraics", []):
                    _, v = st.sample(built.syms[s["name"]], grid="integrator")
                    add("zi:%s" % s["name"], v, s["shape"][1])
        if "roots" in want:
            t_r, _ = st.sample(st.t, grid="integrator_roots")
            add("tr", t_r)
            for s in sp.get("states", []):
                if s.get("quad"):
                    continue
                _, v = st.sample(built.syms[s["name"]], grid="integrator_roots")
                add("xr:%s" % s["name"], v, s["shape"][1])
            for s in sp.get("algebraics", []):
                _, v = st.sample(built.syms[s["name"]], grid="integrator_roots")
                add("zr:%s" % s["name"], v, s["shape"][1])
        for name, e, m in (extra or []):
            add(name, e, m)
        self.fun = ca.Function("rb", [view.x, view.p], exprs)
        self.exprs = exprs

    def __call__(self, w, p=None):
        p = self.view.p0 if p is None else p
        res = self.fun(w, p)
        if not isinstance(res, (list, tuple)):
            res = [res]
        out = {}
        for name, r in zip(self.names, res):
            a = np.array(r, dtype=float)
            if name in ("tc", "tc_val", "ti", "tr"):
                out[name] = a.reshape(-1)
            elif name in ("T", "t0"):
                out[name] = float(a.reshape(-1)[0])
            elif name[:2] in ("v:", "p:"):
                out[name] = a
            else:
                out[name] = _blocks(a, self.shapes[name])
        return out

    def jacobian(self, names=None):
        """Constant matrix d(readbacks)/dw (the read-backs are linear in w for MS/DC)."""
        import casadi as ca
        idx = [i for i, n in enumerate(self.names) if names is None or n in names]
        big = ca.vertcat(*[ca.vec(self.exprs[i]) for i in idx])
        J = ca.Function("J", [self.view.x, self.view.p], [ca.jacobian(big, self.view.x), big])
        return J


def independence_defect(rb, view, spec, w):
    """Are the physical coordinates of the discretisation independently assignable?

    The states at the nodes (MultipleShooting) resp. at the integrator points and the helper states and algebraic values
    at the collocation times (DirectCollocation), the controls and per-interval variables of every interval and the global
    variables are separate degrees of freedom of the NLP: the Jacobian of their read-back with respect to the decision
    vector has one independent row per coordinate.  A transcription that lets two of them share one decision variable
    has lower rank (the NLP rows then still agree with the read-back, so only this count shows it).

    -> (expected, rank) or None when not applicable"""
    import casadi as ca
    mt = spec["method"]
    cls, N, M = mt["cls"], mt["N"], mt.get("M", 1)
    if cls not in ("MS", "DC", "SS"):
        return None
    nel = lambda s: s["shape"][0] * s["shape"][1]
    expected = 0
    want = []
    if cls == "MS":
        for s in spec["states"]:
            if not s.get("quad"):
                expected += nel(s) * (N + 1)
                want.append("xc:" + s["name"])
    elif cls == "DC":
        d = mt.get("degree", 1)
        for s in spec["states"]:
            if not s.get("quad"):
                expected += nel(s) * (N * M + 1) + nel(s) * N * M * d
                want += ["xi:" + s["name"], "xr:" + s["name"]]
        for s in spec.get("algebraics", []):
            # (the algebraic polynomial of an integration interval has d coefficients: its values at the d collocation
            # times are the degrees of freedom, its value at the interval start follows from them)
            expected += nel(s) * N * M * d
            want += ["zr:" + s["name"]]
    for s in spec["controls"]:
        expected += nel(s) * N
        want.append("uc:" + s["name"])
    for s in spec["variables"]:
        if s.get("role") == "horizon":
            continue
        if s.get("grid") == "control":
            expected += nel(s) * (N + (1 if s.get("include_last") else 0))
            want.append("vc:" + s["name"])
        elif not s.get("grid"):
            expected += nel(s)
            want.append("v:" + s["name"])
    rows = [ca.vec(e) for n, e in zip(rb.names, rb.exprs) if n in want]
    if len([n for n in rb.names if n in want]) != len(want) or not rows:
        return None
    if not hasattr(rb, "_indep_fun"):
        rb._indep_fun = ca.Function("J", [view.x, view.p], [ca.jacobian(ca.vertcat(*rows), view.x)])
    J = np.array(ca.DM(rb._indep_fun(w, view.p0)), dtype=float)
    if not np.all(np.isfinite(J)):
        return None
    return expected, int(np.linalg.matrix_rank(J))
