"""B1/B2 of DESIGN.md: the baked NLP of a transcribed OCP, row attribution, normalised atoms."""
import numpy as np


class NlpView:
    def __init__(self, ocp, transcribe=True):
        import casadi as ca
        if transcribe:
            ocp._transcribed  # public sample()/solve() do exactly this; no solve involved
        opti = ocp._method.opti
        self.opti = opti
        adv = opti.advanced
        adv.bake()
        self.adv = adv
        # all symbols of the Opti instance, active or not (a variable/parameter that appears in no row and
        # not in the objective is absent from adv.x / adv.p but still carries meaning for the read-backs)
        xs, ps = [], []
        for s in adv.symvar():
            t = adv.get_meta(s).type
            (xs if t == ca.OPTI_VAR else ps).append(s)
        self.x_active, self.p_active = adv.x, adv.p
        self.nx_active, self.np_active = adv.nx, adv.np
        self.x = ca.veccat(*xs) if xs else ca.MX(0, 1)
        self.p = ca.veccat(*ps) if ps else ca.MX(0, 1)
        self.nx, self.ng, self.np = self.x.numel(), adv.ng, self.p.numel()
        self.F = ca.Function("nlp", [self.x, self.p], [adv.f, adv.g, adv.lbg, adv.ubg])
        self.row_cid = np.full(self.ng, -1, dtype=int)
        self.row_site = [None] * self.ng
        self.row_con = np.full(self.ng, -1, dtype=int)
        self.n_con = 0
        for ci, c in enumerate(adv.constraints()):
            m = adv.get_meta_con(c)
            try:
                ud = opti.user_dict(c)
            except Exception:
                ud = {}
            st = ud.get("stacktrace", {}) if isinstance(ud, dict) else {}
            if isinstance(st, list):
                st = st[0] if st else {}
            cid = -1
            site = "%s:%s:%s" % (str(st.get("file", "?")).split("/")[-1], st.get("line", "?"), st.get("name", "?"))
            if st.get("file") == "VERIF":
                cid = int(st.get("line"))
            for r in range(m.start, m.stop):
                self.row_cid[r] = cid
                self.row_site[r] = site
                self.row_con[r] = ci
            self.n_con += 1
        self.x0 = np.array(opti.debug.value(self.x, opti.initial())).reshape(-1) if self.nx else np.zeros(0)
        self.p0 = np.array(opti.debug.value(self.p, opti.initial())).reshape(-1) if self.np else np.zeros(0)

    def eval(self, w, p=None):
        p = self.p0 if p is None else p
        f, g, lbg, ubg = self.F(w, p)
        return (float(f), np.array(g).reshape(-1), np.array(lbg).reshape(-1), np.array(ubg).reshape(-1))

    def atoms(self, w, p=None):
        """-> (f, list of atoms); an atom is (kind, value, cid, site, row)."""
        f, g, lb, ub = self.eval(w, p)
        out = []
        for i in range(self.ng):
            cid, site = int(self.row_cid[i]), self.row_site[i]
            if np.isfinite(lb[i]) and np.isfinite(ub[i]) and lb[i] == ub[i]:
                out.append(("eq", abs(g[i] - lb[i]), cid, site, i))
                continue
            if np.isfinite(lb[i]):
                out.append(("ge", g[i] - lb[i], cid, site, i))
            if np.isfinite(ub[i]):
                out.append(("ge", ub[i] - g[i], cid, site, i))
            if not np.isfinite(lb[i]) and not np.isfinite(ub[i]):
                out.append(("free", 0.0, cid, site, i))
        return f, out

    def random_point(self, rng, spread=0.7):
        return self.x0 + spread * rng.standard_normal(self.nx)

    def depends(self, rows_expr_indices, var_expr):
        raise NotImplementedError


def tol_eq(a, b, scale=1.0, rtol=1e-9):
    return abs(a - b) <= rtol * (1.0 + abs(a) + abs(b) + scale)


def match_multiset(expected, observed, scale=1.0, rtol=1e-9):
    """Greedy multiset matching of (kind, value) pairs.
    Returns (unmatched_expected, unmatched_observed) as lists of indices into the inputs."""
    un_e, un_o = [], []
    for kind in sorted({k for k, _ in expected} | {k for k, _ in observed}):
        ev = sorted((v, i) for i, (k, v) in enumerate(expected) if k == kind)
        ov = sorted((v, i) for i, (k, v) in enumerate(observed) if k == kind)
        i = j = 0
        while i < len(ev) and j < len(ov):
            a, b = ev[i][0], ov[j][0]
            if tol_eq(a, b, scale, rtol):
                i += 1
                j += 1
            elif a < b:
                un_e.append(ev[i][1])
                i += 1
            else:
                un_o.append(ov[j][1])
                j += 1
        un_e.extend(x[1] for x in ev[i:])
        un_o.extend(x[1] for x in ov[j:])
    return un_e, un_o


def match_subset(expected, observed, scale=1.0, rtol=1e-9):
    """Every expected atom must be matched by a distinct observed atom.
    Returns (unmatched_expected_indices, leftover_observed_indices)."""
    return match_multiset(expected, observed, scale, rtol)
