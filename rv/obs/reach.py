"""Reach evidence: which rockit functions were entered (sys.monitoring PY_START, disabled per code
object after the first hit between two drains, so the overhead is negligible)."""
import os
import sys

_TOOL = 3  # sys.monitoring tool id (free slot)
_seen = set()
_installed = False
_root = None


def _qual(code):
    return "%s:%s" % (os.path.basename(code.co_filename)[:-3], code.co_qualname)


def _on_start(code, offset):
    fn = code.co_filename
    if _root is not None and fn.startswith(_root):
        _seen.add(_qual(code))
    return sys.monitoring.DISABLE


def install():
    global _installed, _root
    if _installed:
        return
    from .. import bootstrap
    _root = os.path.realpath(os.path.join(bootstrap.repo_dir(), "rockit")) + os.sep
    mon = sys.monitoring
    try:
        mon.use_tool_id(_TOOL, "rv-reach")
    except ValueError:
        return
    mon.register_callback(_TOOL, mon.events.PY_START, _on_start)
    mon.set_events(_TOOL, mon.events.PY_START)
    _installed = True


def drain():
    """Return and reset the set of rockit functions entered since the last drain."""
    global _seen
    out = sorted(_seen)
    _seen = set()
    if _installed:
        sys.monitoring.restart_events()
    return out
