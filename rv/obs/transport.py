"""Point transport between two NLPs of different layout through physical coordinates (DESIGN 1.3)."""
import numpy as np


class Affine:
    """phys(w) = J w + c  for the selected read-backs of an Observed OCP (linear in w for MS / DC)."""

    def __init__(self, obs, names):
        import casadi as ca
        self.obs = obs
        self.names = [n for n in names if n in obs.rb.names]
        idx = [obs.rb.names.index(n) for n in self.names]
        self.sizes = [obs.rb.exprs[i].numel() for i in idx]
        big = ca.vertcat(*[ca.vec(obs.rb.exprs[i]) for i in idx]) if idx else ca.MX(0, 1)
        F = ca.Function("J", [obs.view.x, obs.view.p], [ca.jacobian(big, obs.view.x), big])
        w0 = np.zeros(obs.view.nx)
        J0, c0 = F(w0, obs.view.p0)
        self.J = np.array(J0.full() if hasattr(J0, "full") else J0, dtype=float).reshape(-1, obs.view.nx)
        self.c = np.array(c0, dtype=float).reshape(-1)
        # linearity check
        w1 = np.random.default_rng(0).standard_normal(obs.view.nx)
        J1, v1 = F(w1, obs.view.p0)
        v1 = np.array(v1, dtype=float).reshape(-1)
        self.nonlinear = float(np.max(np.abs(self.J @ w1 + self.c - v1))) if v1.size else 0.0
        self.F = F

    def values(self, w):
        _, v = self.F(w, self.obs.view.p0)
        return np.array(v, dtype=float).reshape(-1)

    def split(self, vec):
        out = {}
        o = 0
        for n, s in zip(self.names, self.sizes):
            out[n] = vec[o:o + s]
            o += s
        return out


def transport(src, w_src, dst, names, overrides=None, rng=None):
    """Find w_dst whose read-backs `names` equal those of (src, w_src); `overrides` = {name: vector} replaces
    target values (e.g. the horizon).  Unconstrained directions of w_dst are filled randomly.
    Returns (w_dst, residual, rank_info)."""
    a_src = Affine(src, names)
    names = [n for n in a_src.names if n in dst.rb.names]
    a_src = Affine(src, names)
    a_dst = Affine(dst, names)
    target = a_src.values(w_src)
    if overrides:
        parts = a_src.split(target)
        for k, v in overrides.items():
            if k in parts:
                parts[k] = np.array(v, dtype=float).reshape(-1)
        target = np.concatenate([parts[n] for n in a_src.names]) if a_src.names else target
    rhs = target - a_dst.c
    sol, *_ = np.linalg.lstsq(a_dst.J, rhs, rcond=None)
    rng = rng or np.random.default_rng(1)
    # fill the null space randomly (variables no read-back sees)
    try:
        from scipy import linalg
        null = linalg.null_space(a_dst.J)
        if null.shape[1]:
            sol = sol + null @ rng.standard_normal(null.shape[1])
    except Exception:
        pass
    res = float(np.max(np.abs(a_dst.J @ sol - rhs))) if rhs.size else 0.0
    return sol, res, {"nonlinear_src": a_src.nonlinear, "nonlinear_dst": a_dst.nonlinear,
                      "rank": int(np.linalg.matrix_rank(a_dst.J)) if a_dst.J.size else 0, "nx": dst.view.nx}
