"""pytest plugin (-p rv.obs.pytest_contracts): runs the repository's own tests with the harness contracts switched on."""
import json
import os


def pytest_configure(config):
    from rv import bootstrap
    bootstrap.setup_paths()
    from rv.obs import contracts
    contracts.install()


def pytest_sessionfinish(session, exitstatus):
    from rv.obs import contracts
    v, c = contracts.drain()
    out = os.environ.get("RV_CONTRACT_OUT")
    if out:
        json.dump({"violations": v, "counts": c}, open(out, "w"))
