"""C16 -- der() is the total time derivative along the declared dynamics."""
import numpy as np

from ..gen import ocpgen, expr as E
from . import common as C

ID = "C16"
LEVEL = "exploration"
RULE = ("(A) random ODE / DAE models (vector and matrix states, controls, algebraics, global parameters and variables, "
        "explicitly time-dependent right-hand sides) and random scalar / vector expressions e of states, time and "
        "parameters: ocp.der(e) is turned into a numeric function of (x, u, z, p, v, t) and compared at random points with "
        "the symmetric directional difference [e(x+h f, t+h) - e(x-h f, t-h)]/2h (h=1e-5, f from the numpy evaluation of "
        "the declared right-hand side) and, on a subsample, with d/dt e(x(t), t) along a scipy solve_ivp solution (rtol "
        "1e-11).  (B) controls of order k=1..3 under SingleShooting/rk (every decision vector is dynamically feasible, "
        "rk is exact on integrator chains): der applied j<=k times is sampled with refine; on every control interval the "
        "j-th signal must be the exact derivative of the polynomial fitted through the (j-1)-th, signals 0..k-1 are "
        "continuous across nodes, the k-th is the piecewise-constant decision; the (k+1)-th application and der of an "
        "order-0 control must raise.  (S) expressions of a state, a bspline variable or parameter (order 1..3) and time under MultipleShooting / DirectCollocation: der(e) sampled on the control grid must equal e_x f + e_w der(w) + e_t computed by CasADi AD on independent symbols from the sampled ingredients.  (Q) expressions of a state(quad=True), a state and time: der(e) = e_x f + e_q g + e_t with g the declared integrand.  non-trivial = at least one comparison with a non-zero derivative; distinct = "
        "feature signature of the model/expression or (order, N, M, grid).")
ASSUMPTIONS = ["finite differences with tolerance 1e-6 (relative)", "numpy evaluation of the declared right-hand side"]
ANCHORS = ["stage:Stage.der", "stage:Stage.control"]
CASE_LIMIT = {"quick": 120, "thorough": 300}

PROFILE = {"methods": ["MS"], "intgs": ["rk"], "grids": ["uniform"], "alg": 0.0, "per_interval": False,
           "t0_kinds": ["num"], "T_kinds": ["num"], "quad_states": 0.0}


def gen_cases(rng, tier):
    cases = []
    na = 200 if tier == "quick" else 4000
    for i in range(na):
        spec = ocpgen.gen_stage(rng, dict(PROFILE, methods=[rng.choice(["MS", "DC"])], alg=0.3))
        lv = spec["leaves"]
        leaves = lv["x"] + lv["p"] + lv["v"] + [["t"]]
        n = rng.choice([1, 1, 2, 3])
        mat = [[E.rand_expr_covering(rng, [rng.choice(lv["x"])] + ([["t"]] if rng.random() < 0.6 else []), leaves, 2)]
               for _ in range(n)]
        cases.append({"kind": "A", "spec": spec, "expr": mat, "seed": rng.getrandbits(32),
                      "ivp": rng.random() < 0.15 and not spec["algebraics"],
                      # der() applied to a state symbol itself (whatever its shape and the shapes declared before it)
                      "bare": rng.choice([s_["name"] for s_ in spec["states"] if not s_.get("quad")])
                      if rng.random() < 0.3 else None})
    nb = 40 if tier == "quick" else 600
    for i in range(nb):
        cases.append({"kind": "B", "order": rng.choice([1, 2, 3]), "N": rng.choice([1, 2, 3, 4]),
                      "M": rng.choice([1, 2, 3]), "nu": rng.choice([1, 1, 2]),
                      "grid": ocpgen.gen_grid(rng, ["uniform", "geometric", "function"], 3),
                      "t0": ocpgen.rnd(rng, -1, 1), "T": ocpgen.rnd(rng, 0.5, 3), "refine": rng.choice([4, 5, 6]),
                      "seed": rng.getrandbits(32)})
    for i in range(8 if tier == "quick" else 80):
        cases.append({"kind": "Q", "form": i % 4, "a": ocpgen.rnd(rng, -1, 1), "c": ocpgen.rnd(rng, -1.5, 1.5),
                      "seed": rng.getrandbits(32)})
    ns = 30 if tier == "quick" else 400
    for i in range(ns):
        cases.append({"kind": "S", "cls": rng.choice(["MS", "DC"]), "N": rng.choice([1, 2, 3, 4]), "M": rng.choice([1, 2]),
                      "order": rng.choice([1, 2, 3]), "param": rng.random() < 0.3, "form": rng.randrange(10),
                      "order2": rng.choice([1, 2, 3]), "decl": rng.choice(["wv", "vw"]), "refine": rng.choice([2, 3, 4]),
                      "late": rng.random() < 0.4,
                      "a": ocpgen.rnd(rng, -1, 1), "b": ocpgen.rnd(rng, 0.3, 2), "c": ocpgen.rnd(rng, -1.5, 1.5),
                      "grid": ocpgen.gen_grid(rng, ["uniform", "geometric", "function"], 3),
                      "t0": ocpgen.rnd(rng, -1, 1), "T": ocpgen.rnd(rng, 0.5, 3), "seed": rng.getrandbits(32)})
    return cases


def s_expr(form, x, w, v, t, c, ca):
    if form == 0:
        return ca.sin(x) * w + c * x * t
    if form == 1:
        return w ** 2 + c * x
    if form == 2:
        return ca.vertcat(x * w, ca.cos(w) + t * c)
    if form == 3:
        return (x + c * w) ** 2 * ca.tanh(t)
    if form == 4:
        return t * w ** 2 - v * x
    if form == 5:
        return w * x + ca.sin(v)
    if form == 6:
        return ca.vertcat(v * w, c * v + x)
    if form == 7:
        return ca.sin(w) * ca.cos(v) + c * t * x
    # forms 8, 9: the expression mentions a derivative of the signal itself (dw is passed in place of v)
    if form == 8:
        return x * v + c * w
    return v ** 2 + c * x * w


def run_S(case):
    """chain rule through B-spline signals: der(e(x, w, v, t)) = e_x f + e_w der(w) + e_v der(v) + e_t on the control
    grid, and der(signal) on the refined integrator grid = derivative of the spline through the refined samples"""
    import casadi as ca
    import rockit
    from ..gen import build
    from ..obs import nlp
    from ..ref import grids as G
    from .c17 import design, spline_eval
    own_der = case["form"] >= 8          # e mentions der(w) itself
    two = 4 <= case["form"] <= 7
    if own_der:
        case = dict(case, order=max(case["order"], 2))
    res = {"sig": "S|%s|N%dM%d|o%d%s|%s|f%d|%s|%s" % (case["cls"], case["N"], case["M"], case["order"],
                                                      case.get("order2", "") if two else "", "p" if case["param"] else "v",
                                                      case["form"], case.get("decl", "wv") + ("-late" if case.get("late") else ""), C.grid_tag(case["grid"])),
           "evals": 0, "violations": [], "counters": {"points": 0, "refined_der_points": 0}}
    rng = np.random.default_rng(case["seed"])
    a, b, c = case["a"], case["b"], case["c"]
    N, M = case["N"], case["M"]
    try:
        ocp = rockit.Ocp(t0=case["t0"], T=case["T"])
        x = ocp.state()
        u = ocp.control()

        def mk(order, param):
            if param:
                s_ = ocp.parameter(grid="bspline", order=order)
                ocp.set_value(s_, ca.DM(rng.standard_normal((1, N + order))))
                return s_
            return ocp.variable(grid="bspline", order=order)
        w = v = None
        for name in case.get("decl", "wv"):          # declaration order is part of the case
            if name == "w":
                w = mk(case["order"], case["param"])
            elif two:
                v = mk(case.get("order2", 2), False)
        f = a * x + u + b * w
        ocp.set_der(x, f)
        dw_early = C.call("der(w)", ocp.der, w) if own_der else None
        e = s_expr(case["form"], x, w, (v if two else (dw_early if own_der else 0)), ocp.t, c, ca)
        late = bool(case.get("late")) and not own_der
        if case["cls"] == "MS":
            ocp.method(rockit.MultipleShooting(N=N, M=M, intg="rk", grid=build.make_grid(case["grid"])))
        else:
            ocp.method(rockit.DirectCollocation(N=N, M=M, degree=3, grid=build.make_grid(case["grid"])))
        ocp.solver("ipopt", {"ipopt.print_level": 0, "print_time": False})
        ocp.add_objective(ocp.sum(u ** 2 + ca.sumsqr(w) + (ca.sumsqr(v) if two else 0)) + ocp.at_tf(x) ** 2)
        if late:
            # the derivatives are requested for the first time after the OCP has been transcribed once
            C.call("transcribe(first)", lambda: ocp._transcribed)
            res["counters"]["der_after_first_transcription"] = 1
        de = C.call("der(e)", ocp.der, e)
        # derivatives of the signals are requested after der(e) mentioned them in its own order
        dv = C.call("der(v)", ocp.der, v) if two else None
        dw = C.call("der(w)", ocp.der, w)
        ocp.add_objective(ocp.sum(ca.sumsqr(de)))
        view = C.call("transcribe", nlp.NlpView, ocp)
        ddw = C.call("der(der(w))", ocp.der, dw) if own_der else None
        qs = [x, u, w, dw, ocp.t, de] + ([v, dv] if two else ([dw, ddw] if own_der else []))
        outs = [C.call("sample", ocp.sample, q, grid="control")[1] for q in qs]
        sig_pairs = [("w", w, dw, case["order"])] + ([("v", v, dv, case.get("order2", 2))] if two else [])
        r = case.get("refine", 3)
        for _, sg, dsg, _o in sig_pairs:
            tt, vv = C.call("sample(refine)", ocp.sample, sg, grid="integrator", refine=r)
            _, dd = C.call("sample(der, refine)", ocp.sample, dsg, grid="integrator", refine=r)
            outs += [tt, vv, dd]
        # (symbols left unsubstituted in a sampled expression surface here as 'free variables')
        F = C.call("sampled expressions as a function of the decision vector", ca.Function, "s", [view.x, view.p],
                   [ca.MX(o) for o in outs])
    except C.RockitRaised as ex:
        res["violations"].append(C.exc_violation(ID, ex, "S|" + case["cls"]))
        return res
    # independent derivative: casadi AD on our own symbols
    xs, us, ws, dws, ts, vs, dvs = [ca.MX.sym(n) for n in ("x", "u", "w", "dw", "t", "v", "dv")]
    es = s_expr(case["form"], xs, ws, vs if (two or own_der) else 0, ts, c, ca)
    fs = a * xs + us + b * ws
    ref = ca.jacobian(es, xs) @ fs + ca.jacobian(es, ws) @ dws + ca.jacobian(es, ts)
    if two or own_der:
        # (own_der: vs stands for der(w) and dvs for der(der(w)))
        ref = ref + ca.jacobian(es, vs) @ dvs
    R = ca.Function("r", [xs, us, ws, dws, ts, vs, dvs], [ref])
    nrm = np.array(G.normalized(case["grid"], N))
    xi_phys = case["t0"] + case["T"] * nrm
    for it in range(3):
        wv = view.random_point(rng, 1.0)
        vals = [np.array(q, dtype=float) for q in F(wv, view.p0)]
        X, U, W, DW, Tt = [q.reshape(-1) for q in vals[:5]]
        DE = vals[5]
        DE = DE.reshape(-1, len(Tt)) if DE.size != len(Tt) else DE.reshape(1, -1)
        V_, DV_ = (vals[6].reshape(-1), vals[7].reshape(-1)) if (two or own_der) else (np.zeros(len(Tt)), np.zeros(len(Tt)))
        min_order = min([case["order"]] + ([case.get("order2", 2)] if two else []))
        if own_der and case["order"] == 2:
            min_order = 1          # der(der(w)) of a degree-2 spline jumps at interior knots
        for k in range(len(Tt)):
            if min_order == 1 and 0 < k < len(Tt) - 1:
                continue       # the derivative of a degree-1 spline is discontinuous at interior knots
            want = np.array(R(X[k], U[k], W[k], DW[k], Tt[k], V_[k], DV_[k])).reshape(-1)
            got = DE[:, k]
            res["evals"] += 1
            res["counters"]["points"] += 1
            if not C.finite(want, got):
                continue
            if np.max(np.abs(want - got)) > 1e-9 * (1 + np.max(np.abs(want))):
                res["violations"].append({
                    "kind": "der-chain-rule-signal", "mech": "C16|S|der-with-bspline-signal",
                    "detail": "form %d, declaration order %s, orders %s under %s: der(e) sampled at node %d is %s, e_x f + e_w "
                              "der(w) + e_v der(v) + e_t = %s" % (case["form"], case.get("decl", "wv"),
                                                                   (case["order"], case.get("order2")), case["cls"], k,
                                                                   C.short(got), C.short(want))})
                return res
        # der(signal) on the refined integrator grid
        off = 8 if (two or own_der) else 6
        for j, (nm, _sg, _dsg, od) in enumerate(sig_pairs):
            tt, vv, dd = [q.reshape(-1) for q in vals[off + 3 * j: off + 3 * j + 3]]
            tt_c = np.clip(tt, xi_phys[0], xi_phys[-1])
            for kn in xi_phys:
                tt_c[np.abs(tt_c - kn) < 1e-9 * (1 + abs(kn))] = kn
            A_ = design(list(xi_phys), od, tt_c).T
            if np.linalg.matrix_rank(A_) < A_.shape[1]:
                continue
            coef, *_ = np.linalg.lstsq(A_, vv, rcond=None)
            if np.max(np.abs(A_ @ coef - vv)) > 1e-8 * (1 + np.max(np.abs(vv))):
                continue        # samples not in the spline space: C17's subject
            want = spline_eval(list(xi_phys), od, coef.reshape(1, -1), tt_c, nu=1)[0]
            inner = np.array([not np.any(np.abs(t_ - xi_phys) < 1e-9 * (1 + abs(t_))) for t_ in tt_c]) if od == 1 \
                else np.ones(len(tt_c), dtype=bool)
            res["evals"] += 1
            res["counters"]["refined_der_points"] += int(np.sum(inner))
            if np.any(inner) and np.max(np.abs(dd[inner] - want[inner])) > 1e-7 * (1 + np.max(np.abs(want))):
                k_ = int(np.argmax(np.abs(dd - want) * inner))
                res["violations"].append({
                    "kind": "der-signal-refined", "mech": "C16|S|der-of-signal-on-refined-grid",
                    "detail": "der(%s) (order %d, declaration order %s) sampled with grid='integrator', refine=%d under %s: "
                              "%.6g at t=%.4g, derivative of the spline through the refined samples of %s: %.6g" % (
                                  nm, od, case.get("decl", "wv"), case.get("refine", 3), case["cls"], dd[k_], tt[k_], nm, want[k_])})
                return res
    res["nontrivial"] = res["counters"]["points"] > 0
    res["sample"] = {"cls": case["cls"], "order": case["order"], "form": case["form"], "N": case["N"], "decl": case.get("decl", "wv")}
    return res


def run_Q(case):
    """quadrature states are states: der(q) is the declared integrand, and the chain rule runs through them"""
    import casadi as ca
    import rockit
    res = {"sig": "Q|form%d" % case["form"], "evals": 0, "violations": [], "counters": {"points": 0}}
    a, c = case["a"], case["c"]
    try:
        ocp = rockit.Ocp(t0=0, T=1)
        x = ocp.state()
        u = ocp.control()
        p = ocp.parameter()
        q = ocp.state(quad=True)
        f = a * x + ca.sin(ocp.t) * p
        g = x ** 2 + c * ocp.t
        ocp.set_der(x, f)
        ocp.set_der(q, g)
        forms = [q, q * x, ca.sin(q) + c * x * ocp.t, ca.vertcat(q ** 2, x * ocp.t + q)]
        e = forms[case["form"]]
        de = C.call("der(e)", ocp.der, e)
        F = C.call("der(e) as a function", ca.Function, "d", [x, q, p, ocp.t], [de])
    except C.RockitRaised as ex:
        res["violations"].append(C.exc_violation(ID, ex, "Q"))
        return res
    xs, qs, ps, ts = [ca.MX.sym(n) for n in ("x", "q", "p", "t")]
    fs = a * xs + ca.sin(ts) * ps
    gs = xs ** 2 + c * ts
    es = [qs, qs * xs, ca.sin(qs) + c * xs * ts, ca.vertcat(qs ** 2, xs * ts + qs)][case["form"]]
    R = ca.Function("r", [xs, qs, ps, ts], [ca.jacobian(es, xs) @ fs + ca.jacobian(es, qs) @ gs + ca.jacobian(es, ts)])
    rng = np.random.default_rng(case["seed"])
    for it in range(5):
        v = rng.standard_normal(4)
        got = np.array(F(*v)).reshape(-1)
        want = np.array(R(*v)).reshape(-1)
        res["evals"] += 1
        res["counters"]["points"] += 1
        if np.max(np.abs(got - want)) > 1e-10 * (1 + np.max(np.abs(want))):
            res["violations"].append({
                "kind": "der-quadrature-state", "mech": "C16|Q|der-through-quadrature-state",
                "detail": "form %d at (x, q, p, t)=%s: der(e)=%s, e_x f + e_q g + e_t=%s (g = declared integrand of the "
                          "quadrature state)" % (case["form"], C.short(v), C.short(got), C.short(want))})
            return res
    res["nontrivial"] = True
    res["sample"] = {"family": "quadrature state", "form": case["form"]}
    return res


class FreeEnv:
    def __init__(self, vals, t):
        self.vals, self.t = vals, t
        self.T = self.t0 = 0.0

    def sym(self, name, i, j):
        return float(self.vals[name][i, j])


def run_A(case):
    import casadi as ca
    from ..gen import build
    spec = case["spec"]
    feats = "%s%s%s%s" % ("z" if spec["algebraics"] else "", "p" if spec["leaves"]["p"] else "",
                          "v" if spec["leaves"]["v"] else "", "m" if any(s["shape"][1] > 1 for s in spec["states"]) else "")
    tdep = any(E.uses(e, "t") for row in case["expr"] for e in row)
    rhs_t = any(E.uses(e, "t") for mat in spec["rhs"].values() for row in mat for e in row)
    res = {"sig": "A|%s|e_t=%s|f_t=%s|dim%d|nx%d" % (feats, tdep, rhs_t, len(case["expr"]), len(spec["states"])),
           "evals": 0, "violations": [], "counters": {"fd_points": 0, "ivp_points": 0}}
    try:
        b = C.call("declare", build.build_ocp, spec, True, False)
        st = b.stage
        e_mx = b.ca_mat(case["expr"])
        d_mx = C.call("der", st.der, e_mx)
        d_bare = C.call("der(state)", st.der, b.syms[case["bare"]]) if case.get("bare") else None
    except C.RockitRaised as e:
        res["violations"].append(C.exc_violation(ID, e, "A"))
        return res
    names = [s["name"] for key in ("states", "controls", "algebraics", "params", "variables") for s in spec.get(key, [])]
    decl = {s["name"]: s for key in ("states", "controls", "algebraics", "params", "variables") for s in spec.get(key, [])}
    args = [b.syms[n] for n in names] + [st.t]
    try:
        F = ca.Function("der", args, [d_mx])
        F_bare = ca.Function("der_state", args, [d_bare]) if d_bare is not None else None
    except Exception as e:  # noqa
        res["violations"].append({"kind": "der-free-symbols", "mech": "C16|der-has-free-symbols",
                                  "detail": "der(e) depends on symbols that are not part of the model: %r" % e})
        return res
    rng = np.random.default_rng(case["seed"])
    snames = [s["name"] for s in spec["states"]]

    def rhs(vals, t):
        env = FreeEnv(vals, t)
        return {n: np.array([[E.ev(e, env) for e in row] for row in spec["rhs"][n]]) for n in snames}

    def ev_e(vals, t):
        env = FreeEnv(vals, t)
        return np.array([E.ev(row[0], env) for row in case["expr"]])

    h = 1e-5
    for it in range(6):
        vals = {n: rng.standard_normal(decl[n]["shape"]) for n in names}
        t = float(rng.uniform(-2, 2))
        got = np.array(F(*[ca.DM(vals[n]) for n in names], t)).reshape(-1)
        f = rhs(vals, t)
        if F_bare is not None:
            gb = np.array(F_bare(*[ca.DM(vals[n]) for n in names], t), dtype=float)
            wb = np.asarray(f[case["bare"]], dtype=float)
            if gb.shape != wb.shape and gb.size == wb.size:
                gb = gb.reshape(wb.shape, order="F")       # a vec()'d matrix
            res["evals"] += 1
            res["counters"]["bare_state_points"] = res["counters"].get("bare_state_points", 0) + 1
            if gb.shape != wb.shape or (C.finite(gb, wb) and np.max(np.abs(gb - wb)) > 1e-10 * (1 + np.max(np.abs(wb)))):
                res["violations"].append({
                    "kind": "der-mismatch", "mech": "C16|der-of-state-is-not-its-right-hand-side",
                    "detail": "der(%s) = %s, declared right-hand side %s (state shapes in declaration order: %s)" % (
                        case["bare"], C.short(gb.reshape(-1)), C.short(wb.reshape(-1)), [s_["shape"] for s_ in spec["states"]])})
                break
        vp = dict(vals)
        vm = dict(vals)
        for n in snames:
            vp[n] = vals[n] + h * f[n]
            vm[n] = vals[n] - h * f[n]
        want = (ev_e(vp, t + h) - ev_e(vm, t - h)) / (2 * h)
        # the same difference with twice the step: their gap estimates the truncation error of `want`
        # (third derivative along the flow times h^2; large for steep expressions)
        vp2, vm2 = dict(vals), dict(vals)
        for n in snames:
            vp2[n] = vals[n] + 2 * h * f[n]
            vm2[n] = vals[n] - 2 * h * f[n]
        want2 = (ev_e(vp2, t + 2 * h) - ev_e(vm2, t - 2 * h)) / (4 * h)
        if not C.finite(want, got, want2):
            continue
        res["evals"] += 1
        res["counters"]["fd_points"] += 1
        err = float(np.max((np.abs(want - got) - 2 * np.abs(want2 - want)) / (1 + np.abs(want))))
        if err > 1e-6:
            res["violations"].append({
                "kind": "der-mismatch", "mech": "C16|der-not-total-derivative",
                "detail": "der(e)=%s, directional finite difference %s (t=%.3g, e depends on t: %s, rhs depends on t: %s)"
                          % (C.short(got), C.short(want), t, tdep, rhs_t)})
            break
        if it == 0:
            res["sample"] = {"expr": case["expr"][0][0], "der": C.short(got), "finite_difference": C.short(want)}
    if case.get("ivp") and not res["violations"]:
        from scipy.integrate import solve_ivp
        vals = {n: rng.standard_normal(decl[n]["shape"]) * 0.5 for n in names}
        shapes = [decl[n]["shape"] for n in snames]
        sizes = [s[0] * s[1] for s in shapes]

        def pack(d):
            return np.concatenate([d[n].reshape(-1) for n in snames])

        def unpack(y):
            out = dict(vals)
            o = 0
            for n, shp, sz in zip(snames, shapes, sizes):
                out[n] = y[o:o + sz].reshape(shp)
                o += sz
            return out

        t0 = float(rng.uniform(-1, 1))
        solv = solve_ivp(lambda t, y: pack(rhs(unpack(y), t)), (t0, t0 + 0.4), pack(vals), method="DOP853", rtol=1e-11,
                         atol=1e-12, dense_output=True)
        if solv.success:
            for tq in np.linspace(t0 + 0.05, t0 + 0.35, 4):
                hh = 1e-4
                ep = ev_e(unpack(solv.sol(tq + hh)), tq + hh)
                em = ev_e(unpack(solv.sol(tq - hh)), tq - hh)
                want = (ep - em) / (2 * hh)
                cur = unpack(solv.sol(tq))
                got = np.array(F(*[ca.DM(cur[n]) for n in names], float(tq))).reshape(-1)
                res["evals"] += 1
                res["counters"]["ivp_points"] += 1
                if C.finite(want, got) and float(np.max(np.abs(want - got) / (1 + np.abs(want)))) > 1e-5:
                    res["violations"].append({"kind": "der-mismatch", "mech": "C16|der-not-derivative-along-solution",
                                              "detail": "along a solve_ivp solution d/dt e = %s, der(e) = %s" % (
                                                  C.short(want), C.short(got))})
                    break
    res["nontrivial"] = res["counters"]["fd_points"] > 0
    return res


def run_B(case):
    import casadi as ca
    import rockit
    from ..gen import build
    k, N, M, nu, r = case["order"], case["N"], case["M"], case["nu"], case["refine"]
    res = {"sig": "B|order%d|N%dM%d|%s|nu%d" % (k, N, M, C.grid_tag(case["grid"]), nu), "evals": 0, "violations": [],
           "counters": {"chain_links": 0, "raises": 0}}
    try:
        ocp = rockit.Ocp(t0=case["t0"], T=case["T"])
        x = ocp.state()
        u = C.call("control(order)", ocp.control, nu, 1, k)
        ocp.set_der(x, ca.sum1(u) + ocp.t)
        chain = [u]
        for j in range(k):
            chain.append(C.call("der^%d(u)" % (j + 1), ocp.der, chain[-1]))
        raised = False
        try:
            ocp.der(chain[-1])
        except Exception:
            raised = True
        res["evals"] += 1
        res["counters"]["raises"] += 1
        if not raised:
            res["violations"].append({"kind": "no-raise", "mech": "C16|derivative-beyond-order-did-not-raise",
                                      "detail": "der applied %d times to a control of order %d did not raise" % (k + 1, k)})
        ocp2 = rockit.Ocp()
        u0 = ocp2.control()
        x2 = ocp2.state()
        ocp2.set_der(x2, u0)
        w2 = ocp2.variable(grid="bspline", order=2)
        # the piecewise-constant bottom of a chain has no derivative, however it is wrapped: alone, times time,
        # times a state, times a bspline signal, inside a second der()
        bottoms = [("der(u)", lambda: ocp2.der(u0)), ("der(t*u)", lambda: ocp2.der(ocp2.t * u0)),
                   ("der(x*u)", lambda: ocp2.der(x2 * u0)), ("der(u*w)", lambda: ocp2.der(u0 * w2)),
                   ("der(t*der^k(c))", lambda: ocp.der(ocp.t * chain[-1][0]))]
        for nm_, fn_ in bottoms:
            raised = False
            try:
                fn_()
            except Exception:
                raised = True
            res["evals"] += 1
            res["counters"]["raises"] += 1
            if not raised:
                res["violations"].append({"kind": "no-raise", "mech": "C16|der-of-order-0-control-did-not-raise",
                                          "detail": "%s of a piecewise-constant control did not raise" % nm_})
        ocp.method(rockit.SingleShooting(N=N, M=M, intg="rk", grid=build.make_grid(case["grid"])))
        ocp.solver("ipopt")
        samples = []
        for s in chain:
            ts, vs = C.call("sample", ocp.sample, s, grid="integrator", refine=r)
            samples.append(vs)
        tc, _ = ocp.sample(ocp.t, grid="control")
        opti = ocp._method.opti
        from ..obs import nlp
        view = nlp.NlpView(ocp)
        F = ca.Function("s", [view.x, view.p], [ca.MX(ts), ca.MX(tc)] + [ca.MX(v) for v in samples])
    except C.RockitRaised as e:
        res["violations"].append(C.exc_violation(ID, e, "B|order%d" % k))
        return res
    rng = np.random.default_rng(case["seed"])
    for it in range(3):
        w = view.random_point(rng)
        out = F(w, view.p0)
        t = np.array(out[0]).reshape(-1)
        tcv = np.array(out[1]).reshape(-1)
        sig = [np.array(o, dtype=float).reshape(nu, -1) for o in out[2:]]
        npts = M * r
        for j in range(k):
            for kk in range(N):
                idx = slice(kk * npts, (kk + 1) * npts + 1)
                tt = t[idx] - t[kk * npts]
                for c in range(nu):
                    coef = np.polyfit(tt, sig[j][c, idx], k - j)
                    fit = np.polyval(coef, tt)
                    dfit = np.polyval(np.polyder(coef), tt) if k - j >= 1 else np.zeros_like(tt)
                    nxt = sig[j + 1][c, idx].copy()
                    sc = 1 + np.max(np.abs(sig[j][c, idx])) + np.max(np.abs(nxt))
                    res["evals"] += 1
                    res["counters"]["chain_links"] += 1
                    last = (k - j == 1)
                    cmp_n = npts if last else npts + 1      # the piecewise-constant member jumps at the node
                    if np.max(np.abs(fit - sig[j][c, idx])) > 1e-8 * sc:
                        res["violations"].append({"kind": "not-polynomial", "mech": "C16|chain-member-not-polynomial",
                                                  "detail": "der^%d(u) on interval %d is not a polynomial of degree %d "
                                                            "(fit residual %.3g)" % (j, kk, k - j, np.max(np.abs(fit - sig[j][c, idx])))})
                        return res
                    if np.max(np.abs(dfit[:cmp_n] - nxt[:cmp_n])) > 1e-6 * sc:
                        res["violations"].append({
                            "kind": "chain-derivative", "mech": "C16|chain-member-not-derivative-of-previous",
                            "detail": "interval %d: d/dt der^%d(u) = %s but der^%d(u) = %s" % (
                                kk, j, C.short(dfit[:cmp_n]), j + 1, C.short(nxt[:cmp_n]))})
                        return res
        # lowest member piecewise constant
        for kk in range(N):
            seg = sig[k][:, kk * npts:(kk + 1) * npts]
            res["evals"] += 1
            if np.max(np.abs(seg - seg[:, :1])) > 1e-10 * (1 + np.max(np.abs(seg))):
                res["violations"].append({"kind": "not-constant", "mech": "C16|lowest-member-not-piecewise-constant",
                                          "detail": "der^%d(u) varies inside control interval %d: %s" % (k, kk, C.short(seg))})
                return res
        if it == 0:
            res["sample"] = {"order": k, "N": N, "M": M, "refine": r, "u_first_interval": C.short(sig[0][0, :npts + 1])}
    res["nontrivial"] = res["counters"]["chain_links"] > 0
    return res


def run_case(case):
    return {"A": run_A, "B": run_B, "S": run_S, "Q": run_Q}[case["kind"]](case)
