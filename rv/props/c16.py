"""C16 -- der() is the total time derivative along the declared dynamics."""
import numpy as np

from ..gen import ocpgen, expr as E
from . import common as C

ID = "C16"
LEVEL = "exploration"
RULE = ("(A) random ODE / DAE models (vector and matrix states, controls, algebraics, global parameters and variables, "
        "explicitly time-dependent right-hand sides) and random scalar / vector expressions e of states, time and "
        "parameters: ocp.der(e) is turned into a numeric function of (x, u, z, p, v, t) and compared at random points with "
        "the symmetric directional difference [e(x+h f, t+h) - e(x-h f, t-h)]/2h (h=1e-5, f from the numpy evaluation of "
        "the declared right-hand side) and, on a subsample, with d/dt e(x(t), t) along a scipy solve_ivp solution (rtol "
        "1e-11).  (B) controls of order k=1..3 under SingleShooting/rk (every decision vector is dynamically feasible, "
        "rk is exact on integrator chains): der applied j<=k times is sampled with refine; on every control interval the "
        "j-th signal must be the exact derivative of the polynomial fitted through the (j-1)-th, signals 0..k-1 are "
        "continuous across nodes, the k-th is the piecewise-constant decision; the (k+1)-th application and der of an "
        "order-0 control must raise.  (S) expressions of a state, a bspline variable or parameter (order 1..3) and time under MultipleShooting / DirectCollocation: der(e) sampled on the control grid must equal e_x f + e_w der(w) + e_t computed by CasADi AD on independent symbols from the sampled ingredients.  non-trivial = at least one comparison with a non-zero derivative; distinct = "
        "feature signature of the model/expression or (order, N, M, grid).")
ASSUMPTIONS = ["finite differences with tolerance 1e-6 (relative)", "numpy evaluation of the declared right-hand side"]
ANCHORS = ["stage:Stage.der", "stage:Stage.control"]
CASE_LIMIT = {"quick": 120, "thorough": 300}

PROFILE = {"methods": ["MS"], "intgs": ["rk"], "grids": ["uniform"], "alg": 0.0, "per_interval": False,
           "t0_kinds": ["num"], "T_kinds": ["num"], "quad_states": 0.0}


def gen_cases(rng, tier):
    cases = []
    na = 200 if tier == "quick" else 4000
    for i in range(na):
        spec = ocpgen.gen_stage(rng, dict(PROFILE, methods=[rng.choice(["MS", "DC"])], alg=0.3))
        lv = spec["leaves"]
        leaves = lv["x"] + lv["p"] + lv["v"] + [["t"]]
        n = rng.choice([1, 1, 2, 3])
        mat = [[E.rand_expr_covering(rng, [rng.choice(lv["x"])] + ([["t"]] if rng.random() < 0.6 else []), leaves, 2)]
               for _ in range(n)]
        cases.append({"kind": "A", "spec": spec, "expr": mat, "seed": rng.getrandbits(32),
                      "ivp": rng.random() < 0.15 and not spec["algebraics"]})
    nb = 40 if tier == "quick" else 600
    for i in range(nb):
        cases.append({"kind": "B", "order": rng.choice([1, 2, 3]), "N": rng.choice([1, 2, 3, 4]),
                      "M": rng.choice([1, 2, 3]), "nu": rng.choice([1, 1, 2]),
                      "grid": ocpgen.gen_grid(rng, ["uniform", "geometric", "function"], 3),
                      "t0": ocpgen.rnd(rng, -1, 1), "T": ocpgen.rnd(rng, 0.5, 3), "refine": rng.choice([4, 5, 6]),
                      "seed": rng.getrandbits(32)})
    ns = 30 if tier == "quick" else 400
    for i in range(ns):
        cases.append({"kind": "S", "cls": rng.choice(["MS", "DC"]), "N": rng.choice([1, 2, 3, 4]), "M": rng.choice([1, 2]),
                      "order": rng.choice([1, 2, 3]), "param": rng.random() < 0.3, "form": rng.randrange(4),
                      "a": ocpgen.rnd(rng, -1, 1), "b": ocpgen.rnd(rng, 0.3, 2), "c": ocpgen.rnd(rng, -1.5, 1.5),
                      "grid": ocpgen.gen_grid(rng, ["uniform", "geometric", "function"], 3),
                      "t0": ocpgen.rnd(rng, -1, 1), "T": ocpgen.rnd(rng, 0.5, 3), "seed": rng.getrandbits(32)})
    return cases


def s_expr(form, x, w, t, c, ca):
    if form == 0:
        return ca.sin(x) * w + c * x * t
    if form == 1:
        return w ** 2 + c * x
    if form == 2:
        return ca.vertcat(x * w, ca.cos(w) + t * c)
    return (x + c * w) ** 2 * ca.tanh(t)


def run_S(case):
    """chain rule through B-spline signals: der(e(x, w, t)) = e_x f + e_w der(w) + e_t, sampled on the control grid"""
    import casadi as ca
    import rockit
    from ..gen import build
    from ..obs import nlp
    res = {"sig": "S|%s|N%dM%d|o%d|%s|f%d|%s" % (case["cls"], case["N"], case["M"], case["order"], "p" if case["param"] else "v",
                                                 case["form"], C.grid_tag(case["grid"])),
           "evals": 0, "violations": [], "counters": {"points": 0}}
    rng = np.random.default_rng(case["seed"])
    a, b, c = case["a"], case["b"], case["c"]
    try:
        ocp = rockit.Ocp(t0=case["t0"], T=case["T"])
        x = ocp.state()
        u = ocp.control()
        if case["param"]:
            w = ocp.parameter(grid="bspline", order=case["order"])
            ocp.set_value(w, ca.DM(rng.standard_normal((1, case["N"] + case["order"]))))
        else:
            w = ocp.variable(grid="bspline", order=case["order"])
        f = a * x + u + b * w
        ocp.set_der(x, f)
        e = s_expr(case["form"], x, w, ocp.t, c, ca)
        de = C.call("der(e)", ocp.der, e)
        dw = C.call("der(w)", ocp.der, w)
        ocp.add_objective(ocp.sum(u ** 2 + ca.sumsqr(w) + ca.sumsqr(de)) + ocp.at_tf(x) ** 2)
        if case["cls"] == "MS":
            ocp.method(rockit.MultipleShooting(N=case["N"], M=case["M"], intg="rk", grid=build.make_grid(case["grid"])))
        else:
            ocp.method(rockit.DirectCollocation(N=case["N"], M=case["M"], degree=3, grid=build.make_grid(case["grid"])))
        ocp.solver("ipopt", {"ipopt.print_level": 0, "print_time": False})
        view = C.call("transcribe", nlp.NlpView, ocp)
        outs = [C.call("sample", ocp.sample, q, grid="control")[1] for q in (x, u, w, dw, ocp.t, de)]
        F = ca.Function("s", [view.x, view.p], [ca.MX(o) for o in outs])
    except C.RockitRaised as ex:
        res["violations"].append(C.exc_violation(ID, ex, "S|" + case["cls"]))
        return res
    # independent derivative: casadi AD on our own symbols
    xs, us, ws, dws, ts = [ca.MX.sym(n) for n in ("x", "u", "w", "dw", "t")]
    es = s_expr(case["form"], xs, ws, ts, c, ca)
    fs = a * xs + us + b * ws
    ref = ca.jacobian(es, xs) @ fs + ca.jacobian(es, ws) @ dws + ca.jacobian(es, ts)
    R = ca.Function("r", [xs, us, ws, dws, ts], [ref])
    for it in range(3):
        wv = view.random_point(rng, 1.0)
        X, U, W, DW, Tt, DE = [np.array(v, dtype=float) for v in F(wv, view.p0)]
        X, U, W, DW, Tt = [v.reshape(-1) for v in (X, U, W, DW, Tt)]
        DE = DE.reshape(-1, len(Tt)) if DE.ndim > 1 or DE.size != len(Tt) else DE.reshape(1, -1)
        for k in range(len(Tt)):
            if case["order"] == 1 and 0 < k < len(Tt) - 1:
                continue       # der(w) of a degree-1 spline is discontinuous at interior knots
            want = np.array(R(X[k], U[k], W[k], DW[k], Tt[k])).reshape(-1)
            got = DE[:, k]
            res["evals"] += 1
            res["counters"]["points"] += 1
            if not C.finite(want, got):
                continue
            if np.max(np.abs(want - got)) > 1e-9 * (1 + np.max(np.abs(want))):
                res["violations"].append({
                    "kind": "der-chain-rule-signal", "mech": "C16|S|der-with-bspline-signal",
                    "detail": "form %d, %s bspline order %d under %s: der(e) sampled at node %d is %s, e_x f + e_w der(w) + "
                              "e_t = %s" % (case["form"], "parametric" if case["param"] else "variable", case["order"],
                                            case["cls"], k, C.short(got), C.short(want))})
                return res
    res["nontrivial"] = res["counters"]["points"] > 0
    res["sample"] = {"cls": case["cls"], "order": case["order"], "form": case["form"], "N": case["N"]}
    return res


class FreeEnv:
    def __init__(self, vals, t):
        self.vals, self.t = vals, t
        self.T = self.t0 = 0.0

    def sym(self, name, i, j):
        return float(self.vals[name][i, j])


def run_A(case):
    import casadi as ca
    from ..gen import build
    spec = case["spec"]
    feats = "%s%s%s%s" % ("z" if spec["algebraics"] else "", "p" if spec["leaves"]["p"] else "",
                          "v" if spec["leaves"]["v"] else "", "m" if any(s["shape"][1] > 1 for s in spec["states"]) else "")
    tdep = any(E.uses(e, "t") for row in case["expr"] for e in row)
    rhs_t = any(E.uses(e, "t") for mat in spec["rhs"].values() for row in mat for e in row)
    res = {"sig": "A|%s|e_t=%s|f_t=%s|dim%d|nx%d" % (feats, tdep, rhs_t, len(case["expr"]), len(spec["states"])),
           "evals": 0, "violations": [], "counters": {"fd_points": 0, "ivp_points": 0}}
    try:
        b = C.call("declare", build.build_ocp, spec, True, False)
        st = b.stage
        e_mx = b.ca_mat(case["expr"])
        d_mx = C.call("der", st.der, e_mx)
    except C.RockitRaised as e:
        res["violations"].append(C.exc_violation(ID, e, "A"))
        return res
    names = [s["name"] for key in ("states", "controls", "algebraics", "params", "variables") for s in spec.get(key, [])]
    decl = {s["name"]: s for key in ("states", "controls", "algebraics", "params", "variables") for s in spec.get(key, [])}
    args = [b.syms[n] for n in names] + [st.t]
    try:
        F = ca.Function("der", args, [d_mx])
    except Exception as e:  # noqa
        res["violations"].append({"kind": "der-free-symbols", "mech": "C16|der-has-free-symbols",
                                  "detail": "der(e) depends on symbols that are not part of the model: %r" % e})
        return res
    rng = np.random.default_rng(case["seed"])
    snames = [s["name"] for s in spec["states"]]

    def rhs(vals, t):
        env = FreeEnv(vals, t)
        return {n: np.array([[E.ev(e, env) for e in row] for row in spec["rhs"][n]]) for n in snames}

    def ev_e(vals, t):
        env = FreeEnv(vals, t)
        return np.array([E.ev(row[0], env) for row in case["expr"]])

    h = 1e-5
    for it in range(6):
        vals = {n: rng.standard_normal(decl[n]["shape"]) for n in names}
        t = float(rng.uniform(-2, 2))
        got = np.array(F(*[ca.DM(vals[n]) for n in names], t)).reshape(-1)
        f = rhs(vals, t)
        vp = dict(vals)
        vm = dict(vals)
        for n in snames:
            vp[n] = vals[n] + h * f[n]
            vm[n] = vals[n] - h * f[n]
        want = (ev_e(vp, t + h) - ev_e(vm, t - h)) / (2 * h)
        if not C.finite(want, got):
            continue
        res["evals"] += 1
        res["counters"]["fd_points"] += 1
        err = float(np.max(np.abs(want - got) / (1 + np.abs(want))))
        if err > 1e-6:
            res["violations"].append({
                "kind": "der-mismatch", "mech": "C16|der-not-total-derivative",
                "detail": "der(e)=%s, directional finite difference %s (t=%.3g, e depends on t: %s, rhs depends on t: %s)"
                          % (C.short(got), C.short(want), t, tdep, rhs_t)})
            break
        if it == 0:
            res["sample"] = {"expr": case["expr"][0][0], "der": C.short(got), "finite_difference": C.short(want)}
    if case.get("ivp") and not res["violations"]:
        from scipy.integrate import solve_ivp
        vals = {n: rng.standard_normal(decl[n]["shape"]) * 0.5 for n in names}
        shapes = [decl[n]["shape"] for n in snames]
        sizes = [s[0] * s[1] for s in shapes]

        def pack(d):
            return np.concatenate([d[n].reshape(-1) for n in snames])

        def unpack(y):
            out = dict(vals)
            o = 0
            for n, shp, sz in zip(snames, shapes, sizes):
                out[n] = y[o:o + sz].reshape(shp)
                o += sz
            return out

        t0 = float(rng.uniform(-1, 1))
        solv = solve_ivp(lambda t, y: pack(rhs(unpack(y), t)), (t0, t0 + 0.4), pack(vals), method="DOP853", rtol=1e-11,
                         atol=1e-12, dense_output=True)
        if solv.success:
            for tq in np.linspace(t0 + 0.05, t0 + 0.35, 4):
                hh = 1e-4
                ep = ev_e(unpack(solv.sol(tq + hh)), tq + hh)
                em = ev_e(unpack(solv.sol(tq - hh)), tq - hh)
                want = (ep - em) / (2 * hh)
                cur = unpack(solv.sol(tq))
                got = np.array(F(*[ca.DM(cur[n]) for n in names], float(tq))).reshape(-1)
                res["evals"] += 1
                res["counters"]["ivp_points"] += 1
                if C.finite(want, got) and float(np.max(np.abs(want - got) / (1 + np.abs(want)))) > 1e-5:
                    res["violations"].append({"kind": "der-mismatch", "mech": "C16|der-not-derivative-along-solution",
                                              "detail": "along a solve_ivp solution d/dt e = %s, der(e) = %s" % (
                                                  C.short(want), C.short(got))})
                    break
    res["nontrivial"] = res["counters"]["fd_points"] > 0
    return res


def run_B(case):
    import casadi as ca
    import rockit
    from ..gen import build
    k, N, M, nu, r = case["order"], case["N"], case["M"], case["nu"], case["refine"]
    res = {"sig": "B|order%d|N%dM%d|%s|nu%d" % (k, N, M, C.grid_tag(case["grid"]), nu), "evals": 0, "violations": [],
           "counters": {"chain_links": 0, "raises": 0}}
    try:
        ocp = rockit.Ocp(t0=case["t0"], T=case["T"])
        x = ocp.state()
        u = C.call("control(order)", ocp.control, nu, 1, k)
        ocp.set_der(x, ca.sum1(u) + ocp.t)
        chain = [u]
        for j in range(k):
            chain.append(C.call("der^%d(u)" % (j + 1), ocp.der, chain[-1]))
        raised = False
        try:
            ocp.der(chain[-1])
        except Exception:
            raised = True
        res["evals"] += 1
        res["counters"]["raises"] += 1
        if not raised:
            res["violations"].append({"kind": "no-raise", "mech": "C16|derivative-beyond-order-did-not-raise",
                                      "detail": "der applied %d times to a control of order %d did not raise" % (k + 1, k)})
        ocp2 = rockit.Ocp()
        u0 = ocp2.control()
        raised = False
        try:
            ocp2.der(u0)
        except Exception:
            raised = True
        res["evals"] += 1
        if not raised:
            res["violations"].append({"kind": "no-raise", "mech": "C16|der-of-order-0-control-did-not-raise",
                                      "detail": "der(u) of a piecewise-constant control did not raise"})
        ocp.method(rockit.SingleShooting(N=N, M=M, intg="rk", grid=build.make_grid(case["grid"])))
        ocp.solver("ipopt")
        samples = []
        for s in chain:
            ts, vs = C.call("sample", ocp.sample, s, grid="integrator", refine=r)
            samples.append(vs)
        tc, _ = ocp.sample(ocp.t, grid="control")
        opti = ocp._method.opti
        from ..obs import nlp
        view = nlp.NlpView(ocp)
        F = ca.Function("s", [view.x, view.p], [ca.MX(ts), ca.MX(tc)] + [ca.MX(v) for v in samples])
    except C.RockitRaised as e:
        res["violations"].append(C.exc_violation(ID, e, "B|order%d" % k))
        return res
    rng = np.random.default_rng(case["seed"])
    for it in range(3):
        w = view.random_point(rng)
        out = F(w, view.p0)
        t = np.array(out[0]).reshape(-1)
        tcv = np.array(out[1]).reshape(-1)
        sig = [np.array(o, dtype=float).reshape(nu, -1) for o in out[2:]]
        npts = M * r
        for j in range(k):
            for kk in range(N):
                idx = slice(kk * npts, (kk + 1) * npts + 1)
                tt = t[idx] - t[kk * npts]
                for c in range(nu):
                    coef = np.polyfit(tt, sig[j][c, idx], k - j)
                    fit = np.polyval(coef, tt)
                    dfit = np.polyval(np.polyder(coef), tt) if k - j >= 1 else np.zeros_like(tt)
                    nxt = sig[j + 1][c, idx].copy()
                    sc = 1 + np.max(np.abs(sig[j][c, idx])) + np.max(np.abs(nxt))
                    res["evals"] += 1
                    res["counters"]["chain_links"] += 1
                    last = (k - j == 1)
                    cmp_n = npts if last else npts + 1      # the piecewise-constant member jumps at the node
                    if np.max(np.abs(fit - sig[j][c, idx])) > 1e-8 * sc:
                        res["violations"].append({"kind": "not-polynomial", "mech": "C16|chain-member-not-polynomial",
                                                  "detail": "der^%d(u) on interval %d is not a polynomial of degree %d "
                                                            "(fit residual %.3g)" % (j, kk, k - j, np.max(np.abs(fit - sig[j][c, idx])))})
                        return res
                    if np.max(np.abs(dfit[:cmp_n] - nxt[:cmp_n])) > 1e-6 * sc:
                        res["violations"].append({
                            "kind": "chain-derivative", "mech": "C16|chain-member-not-derivative-of-previous",
                            "detail": "interval %d: d/dt der^%d(u) = %s but der^%d(u) = %s" % (
                                kk, j, C.short(dfit[:cmp_n]), j + 1, C.short(nxt[:cmp_n]))})
                        return res
        # lowest member piecewise constant
        for kk in range(N):
            seg = sig[k][:, kk * npts:(kk + 1) * npts]
            res["evals"] += 1
            if np.max(np.abs(seg - seg[:, :1])) > 1e-10 * (1 + np.max(np.abs(seg))):
                res["violations"].append({"kind": "not-constant", "mech": "C16|lowest-member-not-piecewise-constant",
                                          "detail": "der^%d(u) varies inside control interval %d: %s" % (k, kk, C.short(seg))})
                return res
        if it == 0:
            res["sample"] = {"order": k, "N": N, "M": M, "refine": r, "u_first_interval": C.short(sig[0][0, :npts + 1])}
    res["nontrivial"] = res["counters"]["chain_links"] > 0
    return res


def run_case(case):
    return {"A": run_A, "B": run_B, "S": run_S}[case["kind"]](case)
