"""C11 -- a free-time problem is the fixed-time problem with T (t0) as a decision variable."""
import copy

import numpy as np

from ..gen import ocpgen, expr as E
from . import common as C

ID = "C11"
LEVEL = "exploration"
RULE = ("Random OCP specifications with T and/or t0 declared FreeTime(guess) (or assigned a variable through "
        "set_T/set_t0), objective terms and constraints that involve T, t0 and tf = t0+T together with trajectory "
        "quantities, x every method x N, M x every grid class incl. localized grids and FreeGrid.  (reference monitor) "
        "at random decision vectors (random horizon values) objective, dynamic rows and all declared constraints equal "
        "the reference model evaluated with the horizon read through value(ocp.T), value(ocp.t0); a row 'T >= 0' must "
        "exist; value(ocp.tf) = t0+T; the start value of the horizon variables is the guess.  (differential monitor, "
        "MultipleShooting / DirectCollocation) for 2-3 horizon values c the same OCP is declared with the numbers "
        "written in; a random point of the fixed-time NLP is transported into the free-time NLP through physical "
        "coordinates (states, controls, variables, helper states, control grid, T=c) and the objective and the multiset "
        "of slacks of all rows that involve trajectory quantities must coincide, while the remaining (horizon / grid "
        "only) equality rows must be satisfied.  non-trivial = at least one comparison at a horizon value different "
        "from the guess; distinct = configuration signature x {T free, t0 free, both}.")
ASSUMPTIONS = ["reference NLP model", "read-backs are affine in the decision vector for MS / DC (verified per case)"]
ANCHORS = ["direct_method:DirectMethod.fill_placeholders_T", "direct_method:DirectMethod.fill_placeholders_t0"]
CASE_LIMIT = {"quick": 150, "thorough": 300}

PROFILE = {"methods": ["MS", "SS", "DC"], "alg": 0.3, "intgs": ["rk", "expl_euler", "next"],
           "grids": ["uniform", "geometric", "function", "free", "uniform_loc", "geometric_loc", "density"],
           "grid_minmax": True,
           "t0_kinds": ["num", "free", "free"], "T_kinds": ["free", "free", "num"],
           "N": [1, 2, 3, 4], "M": [1, 2, 3], "degrees": [1, 2, 3, 4], "quad_states": 0.0}


def gen_cases(rng, tier):
    n = 130 if tier == "quick" else 2000
    cases = []
    while len(cases) < n:
        spec = ocpgen.gen_stage(rng, PROFILE)
        if spec["T"]["kind"] != "free" and spec["t0"]["kind"] != "free":
            continue
        if rng.random() < 0.15:
            # variable assigned through set_T / set_t0
            for key in ("T", "t0"):
                if spec[key]["kind"] == "free" and rng.random() < 0.7:
                    g = spec[key]["guess"]
                    nm = "v_" + key
                    spec["variables"].append({"name": nm, "shape": [1, 1], "grid": "", "role": "horizon", "guess": g})
                    spec[key] = {"kind": "var", "name": nm, "guess": g}
                    spec["initial"] = spec.get("initial", []) + [{"target": nm, "kind": "const", "val": g}]
        for key in ("T", "t0"):
            # an explicit guess through set_initial(ocp.T / ocp.t0, value) overrides the FreeTime default
            if spec[key]["kind"] == "free" and rng.random() < 0.3:
                g = ocpgen.rnd(rng, 0.3, 3.0, 3) if key == "T" else ocpgen.rnd(rng, -2, 2, 3)
                spec["initial"] = spec.get("initial", []) + [{"target": key, "kind": "const", "val": g}]
                spec[key] = dict(spec[key], guess=g, declared_guess=spec[key]["guess"], user_guess=True)
        ncon = rng.randint(1, 3)
        spec["constraints"] = [ocpgen.gen_constraint(rng, spec, cid + 1, grids=["control", "integrator"],
                                                     allow_offsets=False) for cid in range(ncon)]
        sig = ocpgen.signal_leaves(spec)
        # constraints / objective mixing horizon symbols with trajectory quantities
        hleaf = rng.choice([["T"], ["t0"], ["+", ["t0"], ["T"]]])
        spec["constraints"].append({"cid": 50, "form": rng.choice(["le", "ge", "eq"]),
                                    "lhs": [["+", ["at_tf", rng.choice(spec["leaves"]["x"])], ["*", E.rand_const(rng), hleaf]]],
                                    "rhs": [E.rand_const(rng)]})
        spec["constraints"].append({"cid": 51, "form": "le", "grid": "control",
                                    "lhs": [["-", rng.choice(spec["leaves"]["x"]), ["*", ["t"], ["T"]]]],
                                    "rhs": [["+", E.rand_const(rng), ["t0"]]]})
        spec["objective"] = ocpgen.gen_objective(rng, spec, rng.randint(1, 2)) + [["*", E.rand_const(rng), hleaf]]
        cvals = [(ocpgen.rnd(rng, 0.2, 4.0, 3), ocpgen.rnd(rng, -2, 2, 3)) for _ in range(2 if tier == "quick" else 3)]
        cases.append({"spec": spec, "cvals": cvals, "K": 3 if tier == "quick" else 6, "seed": rng.getrandbits(32)})
    for i in range(16 if tier == "quick" else 250):
        tf_, t0f_ = rng.random() < 0.7, rng.random() < 0.4
        if not (tf_ or t0f_):
            tf_ = True
        L = rng.choice([2, 3])
        cases.append({"kind": "spline", "N": rng.choice([2, 3, 4, 5]), "len": L, "T_free": tf_, "t0_free": t0f_,
                      "T": ocpgen.rnd(rng, 0.5, 3.0, 3), "t0": ocpgen.rnd(rng, -1.5, 1.5, 3), "x0": ocpgen.rnd(rng, -1, 1),
                      "guess": [ocpgen.rnd(rng, -1, 1), ocpgen.rnd(rng, -1, 1), ocpgen.rnd(rng, -1, 1)],
                      "guessed": [0],      # SplineMethod takes guesses for the head of a chain only (assertion otherwise)
                      "grid": ocpgen.gen_grid(rng, ["uniform", "geometric", "function"], 3), "seed": rng.getrandbits(32)})
    return cases


def classify(case, v):
    return v.get("mech")


def fixed_twin(spec, c, c0):
    sp = copy.deepcopy(spec)
    for key, val in (("T", c), ("t0", c0)):
        if sp[key]["kind"] in ("free", "var"):
            if sp[key]["kind"] == "var":
                sp["variables"] = [v for v in sp["variables"] if v["name"] != sp[key]["name"]]
                sp["initial"] = [g for g in sp.get("initial", []) if g["target"] != sp[key]["name"]]
            sp["initial"] = [g for g in sp.get("initial", []) if g["target"] != key]     # guesses for the horizon itself
            sp[key] = {"kind": "num", "val": val}
    return sp


def run_spline(case):
    """SplineMethod: a free horizon with guess c starts where the fixed horizon c starts (time-dependent guesses are
    evaluated on the grid of the guessed horizon), and f, g coincide on the restriction T=c."""
    import casadi as ca
    import rockit
    from ..gen import build
    from ..obs import nlp
    res = {"sig": "spline|N%d|%s|L%d|%s%s" % (case["N"], C.grid_tag(case["grid"]), case["len"],
                                              "T" if case["T_free"] else "", "t0" if case["t0_free"] else ""),
           "evals": 0, "violations": [], "counters": {"reference_points": 0, "twins": 0, "transported_points": 0,
                                                      "T_ge_0_rows": 0, "spline_starts": 0}}

    def mk(free):
        kw = {"t0": rockit.FreeTime(case["t0"]) if (free and case["t0_free"]) else case["t0"],
              "T": rockit.FreeTime(case["T"]) if (free and case["T_free"]) else case["T"]}
        ocp = rockit.Ocp(**kw)
        L = case["len"]
        chain = [ocp.state() for _ in range(L - 1)] + [ocp.control()]
        for j in range(L - 1):
            ocp.set_der(chain[j], chain[j + 1])
        ocp.add_objective(ocp.sum(sum(ca.sumsqr(c_) for c_ in chain), include_last=True) + 0.1 * ocp.T)
        ocp.subject_to(ocp.at_t0(chain[0]) == case["x0"])
        a, b_, c_ = case["guess"]
        for j in case["guessed"]:
            ocp.set_initial(chain[j], a + b_ * ocp.t + c_ * ca.sin(ocp.t))
        ocp.method(rockit.SplineMethod(N=case["N"], grid=build.make_grid(case["grid"])))
        ocp.solver("ipopt", {"ipopt.print_level": 0, "print_time": False})
        view = C.call("transcribe", nlp.NlpView, ocp)
        outs = [ca.MX(C.call("sample", ocp.sample, c__, grid="control")[1]) for c__ in chain]
        outs += [ca.MX(C.call("sample", ocp.sample, ocp.t, grid="control")[1]), ca.MX(ocp.value(ocp.T)), ca.MX(ocp.value(ocp.t0))]
        F = ca.Function("s", [view.x, view.p], outs)
        return view, F
    try:
        vA, FA = mk(True)
        vB, FB = mk(False)
    except C.RockitRaised as e:
        res["violations"].append(C.exc_violation(ID, e, "spline"))
        return res
    a_ = [np.array(v_, dtype=float).reshape(-1) for v_ in FA(vA.x0, vA.p0)]
    b_ = [np.array(v_, dtype=float).reshape(-1) for v_ in FB(vB.x0, vB.p0)]
    res["evals"] += 1
    res["counters"]["spline_starts"] += 1
    res["counters"]["twins"] += 1
    names = ["chain[%d]" % j for j in range(case["len"])] + ["t", "T", "t0"]
    for nm, x_, y_ in zip(names, a_, b_):
        if x_.shape != y_.shape or np.max(np.abs(x_ - y_)) > 1e-10 * (1 + np.max(np.abs(y_))):
            res["violations"].append({
                "kind": "spline-start", "mech": "C11|start-differs-from-fixed-horizon-twin|SplineMethod",
                "detail": "%s sampled on the control grid at the start point: free horizon (guess T=%g, t0=%g) %s, fixed "
                          "horizon %s" % (nm, case["T"], case["t0"], C.short(x_[:6]), C.short(y_[:6]))})
            return res
    res["nontrivial"] = True
    res["sample"] = {"family": "SplineMethod", "N": case["N"], "free": [k for k in ("T", "t0") if case[k + "_free"]]}
    return res


def run_case(case):
    import casadi as ca
    from . import engine
    from ..obs import nlp, transport
    if case.get("kind") == "spline":
        return run_spline(case)
    spec = case["spec"]
    which = "%s%s" % ("T" if spec["T"]["kind"] != "num" else "", "t0" if spec["t0"]["kind"] != "num" else "")
    sig = C.config_sig(spec, which)
    res = {"sig": sig, "evals": 0, "violations": [],
           "counters": {"reference_points": 0, "twins": 0, "transported_points": 0, "T_ge_0_rows": 0}}
    rng = np.random.default_rng(case["seed"])
    try:
        obsA = engine.Observed(spec)
        tf_mx = C.call("value", obsA.b.stage.value, obsA.b.stage.tf)
        Ftf = ca.Function("tf", [obsA.view.x, obsA.view.p], [tf_mx])
    except C.RockitRaised as e:
        res["violations"].append(C.exc_violation(ID, e, "|".join(sig.split("|")[:2])))
        return res
    cls = spec["method"]["cls"]
    Tfree = spec["T"]["kind"] in ("free", "var")
    # start value of the horizon = guess
    ph0 = obsA.rb(obsA.view.x0, obsA.view.p0)
    for key in ("T", "t0"):
        if spec[key]["kind"] in ("free", "var"):
            res["evals"] += 1
            if abs(ph0[key] - spec[key]["guess"]) > 1e-12:
                res["violations"].append({"kind": "horizon-start", "mech": "C11|horizon-start-value|" + key,
                                          "detail": "%s starts at %.12g, guess %.12g" % (key, ph0[key], spec[key]["guess"])})
    # reference monitor at random horizon values
    for it in range(case["K"]):
        w = obsA.view.random_point(rng, 1.0)
        n, viol, info = engine.full_compare(spec, obsA.view, obsA.rb, w, tag="free-time NLP, point %d: " % it)
        res["evals"] += n
        if info.get("discarded"):
            continue
        res["counters"]["reference_points"] += 1
        for v in viol:
            v["mech"] = "C11|" + v["mech"]
            res["violations"].append(v)
        ph = obsA.rb(w)
        tf = float(Ftf(w, obsA.view.p0))
        res["evals"] += 1
        if abs(tf - (ph["t0"] + ph["T"])) > 1e-9 * (1 + abs(tf)):
            res["violations"].append({"kind": "tf", "mech": "C11|tf-not-t0-plus-T",
                                      "detail": "value(ocp.tf)=%.12g, t0+T=%.12g" % (tf, ph["t0"] + ph["T"])})
        if viol:
            break
    if spec["T"]["kind"] == "free" and not res["violations"]:
        t_lower_bound(spec, obsA, rng, res)
    g = spec["method"].get("grid") or {}
    unobservable = bool(g.get("localize_t0") and (g.get("localize_T") or g.get("cls") == "Free"))
    if res["violations"] or cls == "SS" or unobservable:
        # SingleShooting: node states are not affine in w; localize_t0 + per-interval lengths: the lengths are not
        # visible through any public read-back, so no point transport exists (the reference monitor above applies)
        res["nontrivial"] = res["counters"]["reference_points"] > 0
        res["sample"] = {"spec": C.spec_digest(spec), "free": which}
        return res
    # differential monitor: fixed-time twins
    keep = ("xc", "uc", "vc", "v", "xi", "xr", "zr", "tc", "T", "t0") if cls == "DC" else ("xc", "uc", "vc", "v", "tc", "T", "t0")
    names = [n for n in obsA.rb.names if n.split(":")[0] in keep]
    hor_vars = [s["name"] for s in spec["variables"] if s.get("role") == "horizon"]
    names = [n for n in names if n.split(":")[-1] not in hor_vars]
    # columns of the horizon variables themselves (T, t0): rows that involve nothing else are T>=0 and friends
    patA = C.row_pattern(obsA.view)
    horcols = set()
    for key in ("T", "t0"):
        if spec[key]["kind"] in ("free", "var"):
            horcols |= C.state_columns(obsA.view, obsA.rb, (key,))
    allcols = set(range(obsA.view.nx))
    trajA = allcols - horcols
    for (c, c0) in case["cvals"]:
        specB = fixed_twin(spec, c, c0)
        try:
            obsB = engine.Observed(specB)
        except C.RockitRaised as e:
            res["violations"].append(C.exc_violation(ID, e, "fixed-twin"))
            break
        res["counters"]["twins"] += 1
        trajB = set(range(obsB.view.nx))
        patB = C.row_pattern(obsB.view)
        for it in range(2):
            wB = obsB.view.random_point(rng)
            wA, resid, info = transport.transport(obsB, wB, obsA, names, rng=rng)
            if info["nonlinear_src"] > 1e-9 or info["nonlinear_dst"] > 1e-9 or resid > 1e-8:
                res["counters"]["transport_failed"] = res["counters"].get("transport_failed", 0) + 1
                continue
            fA, atA = obsA.view.atoms(wA)
            fB, atB = obsB.view.atoms(wB)
            if not C.finite([a[1] for a in atA], [a[1] for a in atB], [fA, fB]):
                continue
            res["counters"]["transported_points"] += 1
            res["evals"] += 2
            if abs(fA - fB) > 1e-8 * (1 + abs(fA) + abs(fB)):
                res["violations"].append({"kind": "objective-differs", "mech": "C11|objective-differs-from-fixed-time",
                                          "detail": "T=%g t0=%g: free-time f=%.12g, fixed-time f=%.12g" % (c, c0, fA, fB)})
                break
            A = [(a[0], a[1]) for a in atA if patA[a[4]] & trajA]
            B = [(a[0], a[1]) for a in atB if patB[a[4]] & trajB]
            sc = 1.0 + max([abs(v) for _, v in A] + [0.0])
            un_a, un_b = nlp.match_multiset(A, B, scale=sc, rtol=1e-8)
            if un_a or un_b:
                res["violations"].append({
                    "kind": "rows-differ", "mech": "C11|rows-differ-from-fixed-time",
                    "detail": "T=%g t0=%g: %d row slacks of the free-time NLP and %d of the fixed-time NLP unmatched, "
                              "e.g. %s vs %s" % (c, c0, len(un_a), len(un_b), C.short([A[i][1] for i in un_a][:4]),
                                                 C.short([B[i][1] for i in un_b][:4]))})
                break
            # (rows with an empty pattern are parametric components of vector constraints: not the horizon's business)
            # system rows only: a declared constraint whose instance happens to involve nothing but the horizon is a
            # constant row of the fixed-time twin (same residual there)
            hor_eq = [a for a in atA if a[2] == -1 and patA[a[4]] and not (patA[a[4]] & trajA) and a[0] == "eq"]
            if any(abs(a[1]) > 1e-7 * (1 + abs(c) + abs(c0)) for a in hor_eq):
                res["violations"].append({"kind": "grid-rows-violated", "mech": "C11|horizon-only-equality-violated",
                                          "detail": "T=%g t0=%g: horizon/grid equality rows not satisfied at the "
                                                    "transported point: %s" % (c, c0, C.short([a[1] for a in hor_eq][:5]))})
                break
        if res["violations"]:
            break
    res["nontrivial"] = res["counters"]["reference_points"] > 0
    res["sample"] = {"spec": C.spec_digest(spec), "free": which, "twin_values": case["cvals"]}
    return res


def t_lower_bound(spec, obs, rng, res):
    """'plus T >= 0': the rows of the NLP that involve time-grid variables only must imply T >= 0
    (linear programme over those rows: minimise T)."""
    from scipy import optimize
    from . import c06
    view, rb = obs.view, obs.rb
    cls = spec["method"]["cls"]
    traj = C.state_columns(view, rb, ("xc:", "uc:", "vc:", "v:", "xi:", "xr:", "zr:") if cls == "DC" else
                           (("xc:", "uc:", "vc:", "v:") if cls == "MS" else ("uc:", "vc:", "v:")))
    hor = [s["name"] for s in spec["variables"] if s.get("role") == "horizon"]
    if hor:
        traj -= C.state_columns(view, rb, tuple("v:" + h for h in hor))
    pattern = C.row_pattern(view)
    used = set().union(*pattern) if pattern else set()
    tdep = C.state_columns(view, rb, ("tc", "T", "t0"))
    if cls == "SS":
        # x0 columns are trajectory columns
        import casadi as ca
        N = spec["method"]["N"]
        for n, e in zip(rb.names, rb.exprs):
            if n.startswith("xc:"):
                sp0 = ca.jacobian(ca.vec(e[:, :e.shape[1] // (N + 1)]), view.x).sparsity()
                traj |= {c for c in range(sp0.size2()) if sp0.colind()[c + 1] > sp0.colind()[c]}
    tcols = sorted((used | tdep) - traj)
    rows = [r for r in range(view.ng) if pattern[r] and pattern[r] <= set(tcols)]
    if not tcols:
        return
    _, _, lb, ub = view.eval(view.random_point(rng))
    A, bvec, nonlin = (c06._linear_rows(view, rows, tcols, rng) if rows else (np.zeros((0, len(tcols))), np.zeros(0), 0.0))
    if nonlin > 1e-8:
        res["counters"]["T_lp_skipped_nonlinear"] = 1
        return
    if not (np.all(np.isfinite(A)) and np.all(np.isfinite(bvec))):
        # a row evaluated to inf / nan at the random linearisation point (e.g. a generated 1/x term): no linear
        # programme can be set up from it -- nothing decided for this case by the LP, the other monitors still run
        res["counters"]["T_lp_skipped_nonfinite"] = 1
        return
    # T as an affine function of the time variables
    w0 = rng.standard_normal(view.nx)
    T0 = rb(w0)["T"]
    cvec = np.zeros(len(tcols))
    for j, c in enumerate(tcols):
        w = w0.copy()
        w[c] += 1.0
        cvec[j] = rb(w)["T"] - T0
    const = T0 - cvec @ w0[tcols]
    Aub, bub, Aeq, beq = [], [], [], []
    for i, r in enumerate(rows):
        if np.isfinite(lb[r]) and lb[r] == ub[r]:
            Aeq.append(A[i])
            beq.append(lb[r] - bvec[i])
            continue
        if np.isfinite(ub[r]):
            Aub.append(A[i])
            bub.append(ub[r] - bvec[i])
        if np.isfinite(lb[r]):
            Aub.append(-A[i])
            bub.append(-(lb[r] - bvec[i]))
    r = optimize.linprog(cvec, A_ub=np.array(Aub) if Aub else None, b_ub=np.array(bub) if Aub else None,
                         A_eq=np.array(Aeq) if Aeq else None, b_eq=np.array(beq) if Aeq else None,
                         bounds=[(-1e3, 1e3)] * len(tcols), method="highs")
    res["evals"] += 1
    res["counters"]["T_ge_0_rows"] += 1
    if r.status == 0:
        tmin = float(cvec @ r.x + const)
        if tmin < -1e-7:
            res["violations"].append({
                "kind": "T-not-bounded-below", "mech": "C11|T>=0-not-enforced",
                "detail": "the rows that involve time-grid variables only (%d rows) admit T = %.6g < 0" % (len(rows), tmin)})
    elif r.status == 3:
        res["violations"].append({"kind": "T-not-bounded-below", "mech": "C11|T>=0-not-enforced",
                                  "detail": "T is unbounded below over the NLP's time-grid rows"})
