"""C14, sub-family 'hoc': scale= on controls of polynomial order >= 1 (declared as control(order=k, scale=s)).

The OCP is written directly against the public API (the spec language has no higher-order controls); twin B is the same
OCP without any scale.  Observed: d(physical u at the nodes)/d(solver variables), the start point in physical units,
and objective / declared-constraint slacks / system rows at points transported through physical coordinates.
"""
import numpy as np

from . import common as C


class _RB:
    def __init__(self, view, names, exprs):
        import casadi as ca
        self.view, self.names, self.exprs = view, names, exprs
        self.fun = ca.Function("rb", [view.x, view.p], exprs)

    def __call__(self, w, p=None):
        p = self.view.p0 if p is None else p
        res = self.fun(w, p)
        if not isinstance(res, (list, tuple)):
            res = [res]
        return {n: np.array(r, dtype=float) for n, r in zip(self.names, res)}


class _Obs:
    pass


def gen(rng, ocpgen):
    nu = rng.choice([1, 2])
    sc = ocpgen.rnd(rng, 0.2, 8.0, 3) if rng.random() < 0.6 else [ocpgen.rnd(rng, 0.2, 8.0, 3) for _ in range(nu)]
    return {"kind": "hoc", "cls": rng.choice(["MS", "DC", "SS"]), "N": rng.choice([1, 2, 3, 4]), "M": rng.choice([1, 2]),
            "order": rng.choice([1, 1, 2]), "nu": nu, "scale_u": sc,
            "scale_x": ocpgen.rnd(rng, 0.2, 8.0, 3) if rng.random() < 0.5 else None,
            "scale_c": ocpgen.rnd(rng, 0.2, 8.0, 3) if rng.random() < 0.6 else None,
            "free_T": rng.random() < 0.4, "T": ocpgen.rnd(rng, 0.5, 2.5, 3),
            "degree": rng.choice([1, 2, 3]), "scheme": rng.choice(["radau", "legendre"]),
            "guess_u": [ocpgen.rnd(rng, -2, 2) for _ in range(nu)], "guess_x": ocpgen.rnd(rng, -2, 2),
            "a": ocpgen.rnd(rng, 0.3, 1.5), "cbound": ocpgen.rnd(rng, 0.5, 3.0), "K": 4, "seed": rng.getrandbits(32)}


def build(case, scaled):
    import casadi as ca
    import rockit
    from ..gen import build as B
    ocp = rockit.Ocp(t0=0, T=rockit.FreeTime(case["T"]) if case["free_T"] else case["T"])
    kx = {"scale": case["scale_x"]} if scaled and case["scale_x"] else {}
    x = ocp.state(**kx)
    ku = {}
    if scaled:
        su = case["scale_u"]
        ku["scale"] = su if isinstance(su, (int, float)) else ca.DM(su)
    u = ocp.control(case["nu"], 1, order=case["order"], **ku)
    ocp.set_der(x, -case["a"] * x + ca.sum1(u) + 0.3 * ca.sin(x))
    ocp.add_objective(ocp.integral(x ** 2 + 0.5 * ca.sumsqr(u)) + ocp.at_tf(x) ** 2)
    kc = {"scale": case["scale_c"]} if scaled and case["scale_c"] else {}
    ocp.subject_to(-case["cbound"] <= (u <= case["cbound"] + 0.5), meta=B.meta_for(1), **kc)
    ocp.subject_to(ocp.at_t0(x) == 0.7, meta=B.meta_for(2), **kc)
    ocp.set_initial(u, ca.DM(case["guess_u"]))
    ocp.set_initial(x, case["guess_x"])
    grid_kw = {"N": case["N"], "M": case["M"]}
    if case["cls"] == "MS":
        ocp.method(rockit.MultipleShooting(intg="rk", **grid_kw))
    elif case["cls"] == "SS":
        ocp.method(rockit.SingleShooting(intg="rk", **grid_kw))
    else:
        ocp.method(rockit.DirectCollocation(degree=case["degree"], scheme=case["scheme"], **grid_kw))
    ocp.solver("ipopt", {"ipopt.print_level": 0, "print_time": False})
    return ocp, x, u


def observe(case, scaled):
    import casadi as ca
    from ..obs import nlp
    ocp, x, u = C.call("declare", build, case, scaled)
    view = C.call("transcribe", nlp.NlpView, ocp)
    names, exprs = [], []
    ders = [u]
    for _ in range(case["order"]):
        ders.append(ocp.der(ders[-1]))
    grids = ["control", "integrator"] + (["integrator_roots"] if case["cls"] == "DC" else [])
    for g in grids:
        names.append("x@" + g)
        exprs.append(C.call("sample", ocp.sample, x, grid=g)[1])
        for lvl, e in enumerate(ders):
            names.append("d%du@%s" % (lvl, g))
            exprs.append(C.call("sample", ocp.sample, e, grid=g)[1])
    names.append("T")
    exprs.append(C.call("value", ocp.value, ocp.T))
    names.append("tc")
    exprs.append(C.call("sample", ocp.sample, ocp.t, grid="control")[1])
    o = _Obs()
    o.view = view
    o.rb = _RB(view, names, exprs)
    o.ocp = ocp
    return o


def run(case, ID):
    import casadi as ca
    from ..obs import nlp, transport
    sig = "hoc|%s|N%dM%d|order%d|nu%d|%s|%s%s%s" % (
        case["cls"] + ("-%s%d" % (case["scheme"][0], case["degree"]) if case["cls"] == "DC" else ""), case["N"],
        case["M"], case["order"], case["nu"], "freeT" if case["free_T"] else "fixT",
        "u" + ("e" if isinstance(case["scale_u"], list) else ""), "x" if case["scale_x"] else "", "c" if case["scale_c"] else "")
    res = {"sig": sig, "evals": 0, "violations": [],
           "counters": {"variable_relations": 0, "transported_points": 0, "constraint_compares": 0, "system_rows": 0,
                        "reference_points": 0, "hoc_cases": 1}}
    rng = np.random.default_rng(case["seed"])
    try:
        A = observe(case, True)
        B = observe(case, False)
    except C.RockitRaised as e:
        res["violations"].append(C.exc_violation(ID, e, "hoc|" + case["cls"]))
        return res
    nu = case["nu"]
    su = np.ones(nu) * case["scale_u"] if isinstance(case["scale_u"], (int, float)) else np.array(case["scale_u"], dtype=float)
    # (i) u at the control nodes: one solver variable each, coefficient = declared scale
    #     (SingleShooting: only the first node is a decision variable)
    aff = transport.Affine(A, ["d0u@control"])
    ncol = case["N"] + 1 if case["cls"] != "SS" else 1
    for r in range(nu * ncol):
        row = aff.J[r]
        nz = np.nonzero(np.abs(row) > 1e-14)[0]
        want = su[r % nu]
        res["evals"] += 1
        res["counters"]["variable_relations"] += 1
        if len(nz) != 1 or abs(row[nz[0]] - want) > 1e-12 * (1 + want) or abs(aff.c[r]) > 1e-14:
            res["violations"].append({
                "kind": "variable-scale", "mech": "C14|solver-variable-not-physical-over-scale|higher-order-control",
                "detail": "control(order=%d, scale=%s), node %d element %d: d(physical)/d(solver vars) = %s, declared "
                          "scale %g" % (case["order"], case["scale_u"], r // nu, r % nu, C.short(row[nz]), want)})
            return res
    # (iii) start point in physical units
    names = [n for n in A.rb.names if n != "tc" and (case["cls"] == "DC" or n == "T" or n.endswith("@control"))]
    pa = transport.Affine(A, names).values(A.view.x0)
    pb = transport.Affine(B, names).values(B.view.x0)
    res["evals"] += 1
    if pa.shape != pb.shape or np.max(np.abs(pa - pb)) > 1e-10 * (1 + np.max(np.abs(pb))):
        res["violations"].append({"kind": "start-point", "mech": "C14|start-point-differs-in-physical-units|higher-order-control",
                                  "detail": "max difference %.3g" % (np.max(np.abs(pa - pb)) if pa.shape == pb.shape else -1)})
        return res
    if A.view.ng != B.view.ng:
        res["violations"].append({"kind": "row-count", "mech": "C14|row-count-differs",
                                  "detail": "scaled NLP has %d rows, unscaled %d" % (A.view.ng, B.view.ng)})
        return res
    # (ii) transported points
    ratios = {}
    for it in range(case["K"]):
        wB = B.view.random_point(rng, 0.5)
        if case["cls"] == "SS":
            # decision variables: x(t0), u(t0), lowest-order helper per interval, T  -- transport them one by one
            wA, resid, info = _ss_transport(A, B, wB, case, su)
        else:
            wA, resid, info = transport.transport(B, wB, A, names, rng=rng)
        if wA is None or resid > 1e-8:
            res["counters"]["transport_failed"] = res["counters"].get("transport_failed", 0) + 1
            continue
        phA, phB = A.rb(wA), B.rb(wB)
        if not C.phys_ok(phA, 1e4) or not C.phys_ok(phB, 1e4):
            continue
        if max(float(np.max(np.abs(phA[n] - phB[n]))) for n in names) > 1e-7:
            res["counters"]["transport_failed"] = res["counters"].get("transport_failed", 0) + 1
            continue
        fA, atA = A.view.atoms(wA)
        fB, atB = B.view.atoms(wB)
        res["counters"]["transported_points"] += 1
        res["evals"] += 1
        if abs(fA - fB) > 1e-8 * (1 + abs(fA) + abs(fB)):
            res["violations"].append({"kind": "objective", "mech": "C14|objective-changed-by-scaling",
                                      "detail": "f scaled %.12g, unscaled %.12g" % (fA, fB)})
            break
        sc = case["scale_c"] or 1.0
        bad = False
        for cid in (1, 2):
            a = [(t[0], t[1]) for t in atA if t[2] == cid]
            b = [(t[0], t[1] / sc) for t in atB if t[2] == cid]
            s_ = 1.0 + max([abs(v) for _, v in a] + [abs(v) for _, v in b] + [0.0])
            un_a, un_b = nlp.match_multiset(a, b, scale=s_, rtol=1e-8)
            res["evals"] += 1
            res["counters"]["constraint_compares"] += 1
            if un_a or un_b:
                res["violations"].append({
                    "kind": "constraint-scale", "mech": "C14|constraint-not-divided-by-its-scale",
                    "detail": "constraint id %d (scale %g): scaled NLP slacks %s, unscaled/scale %s" % (
                        cid, sc, C.short([a[i][1] for i in un_a][:4]), C.short([b[i][1] for i in un_b][:4]))})
                bad = True
                break
        if bad:
            break
        _, gA, lbA, ubA = A.view.eval(wA)
        _, gB, lbB, ubB = B.view.eval(wB)
        for r in range(A.view.ng):
            if A.view.row_cid[r] != -1:
                continue
            for side, (a, b) in enumerate(((gA[r] - lbA[r], gB[r] - lbB[r]), (ubA[r] - gA[r], ubB[r] - gB[r]))):
                if not (np.isfinite(a) and np.isfinite(b)):
                    if np.isfinite(a) != np.isfinite(b):
                        ratios[(r, side)] = ratios.get((r, side), []) + [float("nan")]
                    continue
                if abs(b) < 1e-9:
                    continue
                ratios.setdefault((r, side), []).append(a / b)
    if not res["violations"]:
        for (r, side), lst in ratios.items():
            res["counters"]["system_rows"] += 1
            res["evals"] += 1
            arr = np.array(lst)
            if np.any(~np.isfinite(arr)) or np.any(arr <= 0) or (np.max(arr) - np.min(arr)) > 1e-7 * np.max(np.abs(arr)):
                res["violations"].append({
                    "kind": "system-row-scale", "mech": "C14|system-row-not-a-positive-multiple",
                    "detail": "system row %d (%s): slack ratio scaled/unscaled over the points = %s" % (
                        r, A.view.row_site[r], C.short(arr))})
                break
    res["nontrivial"] = res["counters"]["transported_points"] > 0
    res["sample"] = {"family": "higher-order control", "case": {k: case[k] for k in ("cls", "N", "M", "order", "nu", "scale_u",
                                                                                     "scale_x", "scale_c")}}
    return res


def _ss_transport(A, B, wB, case, su):
    """SingleShooting: every decision variable of A is (physical quantity of B) / scale, matched through the read-backs
    that are affine in w: x(t0), u and its derivatives at t0, the lowest-order helper on every interval, T."""
    import casadi as ca
    from ..obs import transport
    k = case["order"]
    pick = []          # (name, column indices of the read-back that are decision variables)
    N = case["N"]
    pick.append(("x@control", [0]))
    for lvl in range(k):
        pick.append(("d%du@control" % lvl, list(range(case["nu"]))))            # node 0 (column-major: first column)
    pick.append(("d%du@control" % k, list(range(case["nu"] * N))))               # helper control: one per interval
    pick.append(("T", [0]))

    def stack(o):
        ex = []
        for n, idx in pick:
            e = ca.vec(o.rb.exprs[o.rb.names.index(n)])
            ex.append(e[idx])
        big = ca.vertcat(*ex)
        F = ca.Function("J", [o.view.x, o.view.p], [ca.jacobian(big, o.view.x), big])
        J0, c0 = F(np.zeros(o.view.nx), o.view.p0)
        J1, v1 = F(np.ones(o.view.nx), o.view.p0)
        J0 = np.array(J0.full(), dtype=float)
        if np.max(np.abs(np.array(J1.full()) - J0)) > 1e-12:
            return None, None, None
        return J0, np.array(c0, dtype=float).reshape(-1), F
    JA, cA, FA = stack(A)
    JB, cB, FB = stack(B)
    if JA is None or JB is None:
        return None, 1.0, {}
    target = JB @ wB + cB
    sol, *_ = np.linalg.lstsq(JA, target - cA, rcond=None)
    resid = float(np.max(np.abs(JA @ sol + cA - target)))
    if np.linalg.matrix_rank(JA) < A.view.nx:
        return None, 1.0, {}
    return sol, resid, {}
