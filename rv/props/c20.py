"""C20 -- ill-posed specifications are rejected, never silently transcribed."""
import copy

import numpy as np

from ..gen import ocpgen, expr as E
from . import common as C

ID = "C20"
LEVEL = "fault_enumeration"
RULE = ("For every generated well-posed base specification (every method: MultipleShooting rk / cvodes-free explicit "
        "schemes, SingleShooting, DirectCollocation, SplineMethod on an integrator chain; several states, parameters "
        "global and per-interval, variables) the catalogue of single specification faults taken from the property "
        "statement is enumerated at every applicable position (which state lacks its derivative, which parameter lacks "
        "its value, which call carries the foreign symbol, ...).  Each faulty specification is declared, sampled and "
        "solved while a sentinel replaces casadi.Opti.solve / solve_limited: the case holds iff an exception is raised "
        "by some call before the sentinel is reached.  The unfaulted base specification is run through the same calls "
        "first and must not raise (otherwise the case is inconclusive).  non-trivial = base accepted and fault applied; "
        "distinct = (fault kind, position, method).")
ASSUMPTIONS = ["fault catalogue = the list in the property statement", "sentinel on casadi.Opti.solve/solve_limited "
               "decides 'handed to the solver'"]
ANCHORS = ["stage:Stage._ode", "stage:Stage._param_value", "direct_method:DirectMethod.main_transcribe"]
EXHAUSTIVE = False
CASE_LIMIT = {"quick": 120, "thorough": 300}

PROFILE = {"methods": ["MS", "SS", "DC"], "intgs": ["rk", "expl_euler", "next"], "grids": ["uniform", "geometric"],
           "alg": 0.3, "N": [2, 3], "M": [1, 2], "degrees": [2, 3], "t0_kinds": ["num", "free"],
           "T_kinds": ["num", "free", "param"], "quad_states": 0.0, "allow_matrix": False}


def spline_base(rng):
    """integrator-chain system SplineMethod can represent"""
    return {"kind": "spline", "N": rng.choice([3, 4, 5]), "chain": rng.choice([2, 3]), "T": ocpgen.rnd(rng, 0.5, 3)}


def faults_for(spec):
    out = []
    nst = [s for s in spec["states"]]
    for i, s in enumerate(nst):
        out.append(("missing_der", i))
    for j, p in enumerate(spec["params"]):
        out.append(("missing_value", j))
    out += [("no_method", 0), ("no_solver", 0), ("signal_objective", 0), ("nonscalar_objective", 0),
            ("set_value_state", 0), ("set_initial_param", 0) if spec["params"] else None,
            ("set_initial_foreign", 0), ("bad_grid_subject_to", 0), ("bad_grid_sample", 0),
            ("foreign_rhs", 0), ("foreign_constraint", 0), ("foreign_objective", 0), ("constant_false", 0)]
    for pos in (1, 2, 3, 4, 5):
        out.append(("bad_grid_subject_to", pos))       # other spellings of an unknown grid name; boundary constraints
    out.append(("bad_grid_sample", 1))
    if spec["T"]["kind"] == "num" and spec["t0"]["kind"] == "num":
        for pos in (1, 2, 3, 4):
            out.append(("constant_false", pos))         # false constraints built from horizon symbols only
    if [v for v in spec["variables"] if v.get("role") != "horizon"]:
        out.append(("set_value_variable", 0))
    if spec["T"]["kind"] == "param":
        out.append(("set_initial_horizon_alias", 0))   # a guess on ocp.T while the horizon is a parameter
    # set_value on every other kind of non-parameter: control, bspline variable, quadrature state, algebraic
    out += [("set_value_nonparam", 0), ("set_value_nonparam", 1)]
    if spec.get("dyn") == "ode":
        out.append(("set_value_nonparam", 2))
    if spec["algebraics"]:
        out.append(("set_value_nonparam", 3))
    if spec.get("dyn") == "ode":
        out += [("DT_in_ode", 0), ("DTc_in_ode", 0), ("T_in_ode", 0), ("t0_in_ode", 0)]
        if spec["method"]["cls"] in ("MS", "SS") and not spec["algebraics"]:
            out.append(("alg_explicit", 0))
    return [f for f in out if f]


def gen_cases(rng, tier):
    nbase = 12 if tier == "quick" else 200
    cases = []
    for b in range(nbase):
        spec = ocpgen.gen_stage(rng, PROFILE)
        spec["constraints"] = [ocpgen.gen_constraint(rng, spec, 1, grids=["control"], allow_offsets=False)]
        spec["objective"] = ocpgen.gen_objective(rng, spec, 1, allow=["at_tf", "sum"])
        for (f, pos) in faults_for(spec):
            cases.append({"kind": "sampling", "spec": spec, "fault": f, "pos": pos, "base": b})
        if b % 3 == 0:
            # the same faults inside a sub-stage of a multi-stage OCP
            for (f, pos) in faults_for(spec):
                if f in ("missing_der", "missing_value", "no_method", "signal_objective", "bad_grid_subject_to",
                         "foreign_rhs", "foreign_constraint", "set_value_state", "set_value_nonparam", "set_initial_param", "set_initial_horizon_alias", "DT_in_ode",
                         "T_in_ode", "alg_explicit"):
                    cases.append({"kind": "substage", "spec": spec, "fault": f, "pos": pos, "base": b})
            if not spec["algebraics"]:
                cases.append({"kind": "substage", "spec": spec, "fault": "clone_missing_der", "pos": 0, "base": b})
            if [p_ for p_ in spec["params"] if p_.get("role") != "horizon"]:
                cases.append({"kind": "substage", "spec": spec, "fault": "clone_missing_value", "pos": 0, "base": b})
    nsp = 3 if tier == "quick" else 40
    for b in range(nsp):
        base = spline_base(rng)
        for f in ("spline_nonlinear", "spline_timevarying", "missing_der", "no_solver", "spline_alg", "spline_nonlinear_late",
                  "spline_offset_late"):
            cases.append({"kind": "spline", "base_spec": base, "fault": f, "pos": 0, "base": 1000 + b})
    return cases


class SolverReached(Exception):
    pass


def _install_sentinel():
    import casadi as ca
    saved = (ca.Opti.solve, ca.Opti.solve_limited)

    def boom(self, *a, **k):
        raise SolverReached()
    ca.Opti.solve = boom
    ca.Opti.solve_limited = boom
    return saved


def _remove_sentinel(saved):
    import casadi as ca
    ca.Opti.solve, ca.Opti.solve_limited = saved


def build_faulty(spec, fault, pos, substage=False):
    """Declare the OCP through the public API with one fault injected; returns the ocp and a symbol to sample.
    substage=True: the specification becomes a stage of a state-less parent OCP."""
    import casadi as ca
    import rockit
    from ..gen import build
    kw = {}
    for key in ("t0", "T"):
        a = build.horizon_arg(spec[key])
        if a is not None:
            kw[key] = a
    if substage and fault in ("clone_missing_value", "clone_missing_der"):
        # the content goes into a template; two clones, only the first one receives its parameter values
        ocp = rockit.Ocp()
        st = rockit.Stage(**kw)
    elif substage:
        ocp = rockit.Ocp()
        st = ocp.stage(**kw)
    else:
        ocp = rockit.Ocp(**kw)
        st = ocp
    b = build.Built(ocp, st, spec)
    build.declare_symbols(b)
    build.declare_horizon(b)
    foreign = ca.MX.sym("foreign")
    x0sym = b.syms[spec["states"][0]["name"]]
    x0el = x0sym[0] if x0sym.numel() > 1 else x0sym
    # model
    for i, s in enumerate(spec["states"]):
        if fault == "missing_der" and i == pos:
            continue
        e = b.ca_mat(spec["rhs"][s["name"]])
        if i == 0:
            if fault == "foreign_rhs":
                e = e + foreign
            if fault == "DT_in_ode":
                e = e + st.DT
            if fault == "DTc_in_ode":
                e = e + st.DT_control
            if fault == "T_in_ode":
                e = e * st.T
            if fault == "t0_in_ode":
                e = e + st.t0
        if fault == "clone_missing_der":
            continue            # the template carries no dynamics at all: every clone declares its own
        if spec.get("dyn") == "next":
            st.set_next(b.syms[s["name"]], e)
        else:
            st.set_der(b.syms[s["name"]], e)
    for a in spec.get("alg", []):
        st.add_alg(b.ca(a["expr"]))
    if fault == "alg_explicit":
        z = st.algebraic()
        st.add_alg(z - x0el)
    for c in spec.get("constraints", []):
        build.declare_constraint(b, c)
    if fault == "foreign_constraint":
        st.subject_to(x0el + foreign <= 1)
    if fault == "constant_false":
        if pos == 0:
            st.subject_to(ca.MX(2) <= 1)
        else:
            Tv, t0v = spec["T"]["val"], spec["t0"]["val"]
            if pos == 1:
                st.subject_to(st.tf <= t0v + Tv - 0.5)
            elif pos == 2:
                st.subject_to(st.T <= Tv - 0.1)
            elif pos == 3:
                st.subject_to(st.at_tf(st.t) <= t0v + Tv - 0.5)
            else:
                st.subject_to(st.t0 + st.T == t0v + Tv + 1.0)
    if fault == "bad_grid_subject_to":
        if pos <= 3:
            st.subject_to(x0el <= 100, grid=["controls", "Control", "INF", "Integrator"][pos])
        elif pos == 4:
            st.subject_to(st.at_t0(x0el) <= 100, grid="controls")       # boundary constraints with an unknown grid name
        else:
            st.subject_to(st.at_tf(x0el) >= -100, grid="Control")
    build.declare_objective(b)
    if fault == "signal_objective":
        st.add_objective(x0el * 2)
    if fault == "nonscalar_objective":
        st.add_objective(ca.vertcat(st.at_tf(x0el), st.at_tf(x0el)))
    if fault == "foreign_objective":
        st.add_objective(st.at_tf(x0el) * foreign)
    for j, p in enumerate(spec["params"]):
        if (fault == "missing_value" and j == pos) or fault == "clone_missing_value":
            continue
        st.set_value(b.syms[p["name"]], build.param_value(p))
    if fault == "set_value_state":
        st.set_value(x0sym, 1)
    if fault == "set_value_variable":
        v = [v for v in spec["variables"] if v.get("role") != "horizon"][0]
        st.set_value(b.syms[v["name"]], 1)
    if fault == "set_value_nonparam":
        if pos == 0:
            tgt = b.syms[spec["controls"][0]["name"]]
        elif pos == 1:
            tgt = st.variable(grid="bspline", order=2)
            st.add_objective(st.sum(ca.sumsqr(tgt)))
        elif pos == 2:
            tgt = st.state(quad=True)
            st.set_der(tgt, x0el ** 2)
            st.add_objective(st.at_tf(tgt))
        else:
            tgt = b.syms[spec["algebraics"][0]["name"]]
        st.set_value(tgt, 0.25)
    if fault == "set_initial_param":
        st.set_initial(b.syms[spec["params"][0]["name"]], 1)
    if fault == "set_initial_foreign":
        st.set_initial(foreign, 1)
    if fault == "set_initial_horizon_alias":
        st.set_initial(st.T, 1.2)
    if fault != "no_method":
        st.method(build.make_method(spec["method"]))
    if fault != "no_solver":
        ocp.solver("ipopt", {"ipopt.print_level": 0, "print_time": False})
    if fault == "clone_missing_der":
        s1 = ocp.stage(st)
        s2 = ocp.stage(st)
        for s in spec["states"]:
            e = b.ca_mat(spec["rhs"][s["name"]])
            (s1.set_next if spec.get("dyn") == "next" else s1.set_der)(b.syms[s["name"]], e)      # ... forgotten on s2
        return ocp, (s2, x0sym)
    if fault == "clone_missing_value":
        s1 = ocp.stage(st)
        s2 = ocp.stage(st)
        for p in spec["params"]:
            s1.set_value(b.syms[p["name"]], build.param_value(p))
        return ocp, (s2, x0sym)
    if substage:
        return ocp, (st, x0sym)
    return ocp, x0sym


def build_spline(base, fault):
    import casadi as ca
    import rockit
    ocp = rockit.Ocp(T=base["T"])
    chain = [ocp.state() for _ in range(base["chain"])]
    u = ocp.control()
    for i in range(base["chain"] - 1):
        ocp.set_der(chain[i], chain[i + 1])
    last = u
    if fault == "spline_nonlinear":
        last = u * chain[0]
    if fault == "spline_timevarying":
        last = u + ocp.t * chain[0]
    if not fault == "missing_der":
        ocp.set_der(chain[-1], last)
    if fault == "spline_alg":
        z = ocp.algebraic()
        ocp.add_alg(z - chain[0])
    ocp.subject_to(ocp.at_t0(chain[0]) == 0)
    ocp.subject_to(-1 <= (u <= 1))
    ocp.add_objective(ocp.at_tf(chain[0]))
    ocp.method(rockit.SplineMethod(N=base["N"]))
    if fault != "no_solver":
        ocp.solver("ipopt", {"ipopt.print_level": 0, "print_time": False})
    if fault in ("spline_nonlinear_late", "spline_offset_late"):
        # well-posed at first, transcribed, then the last link is declared again with the same dependency pattern
        ocp.sample(chain[0], grid="control")
        ocp.set_der(chain[-1], ca.sin(u) if fault == "spline_nonlinear_late" else u + 1)
    return ocp, chain[0]


GRID_SAMPLE = ["controls"]


def attempt(make, fault):
    """returns (outcome, detail): outcome in {'raised', 'solver-reached', 'completed'}"""
    saved = _install_sentinel()
    try:
        try:
            ocp, sym = make()
            target = ocp
            if isinstance(sym, tuple):
                target, sym = sym
            if fault == "bad_grid_sample":
                target.sample(sym, grid=GRID_SAMPLE[0])
            elif fault == "no_method" and target is not ocp:
                pass        # a stage without a method: the user goes straight to ocp.solve(), which must refuse
            else:
                target.sample(sym, grid="control")
            ocp.solve()
            return "completed", "solve() returned"
        except SolverReached:
            return "solver-reached", "casadi.Opti.solve was called"
        except BaseException as e:  # noqa  (AssertionError etc. are rejections too)
            if isinstance(e, (KeyboardInterrupt, SystemExit)):
                raise
            return "raised", "%s: %s" % (type(e).__name__, str(e).split("\n")[0][:160])
    finally:
        _remove_sentinel(saved)


def run_case(case):
    fault, pos = case["fault"], case["pos"]
    if case["kind"] == "spline":
        base = case["base_spec"]
        meth = "Spline"
        mk_ok = lambda: build_spline(base, None)
        mk_bad = lambda: build_spline(base, fault)
    else:
        spec = case["spec"]
        meth = C.config_sig(spec).split("|")[0]
        sub = case["kind"] == "substage"
        meth = ("sub:" if sub else "") + meth
        mk_ok = lambda: build_faulty(spec, None, 0, sub)
        mk_bad = lambda: build_faulty(spec, fault, pos, sub)
    res = {"sig": "%s|pos%d|%s" % (fault, pos, meth), "evals": 0, "violations": [],
           "counters": {"faults_rejected": 0, "base_accepted": 0}}
    out, det = attempt(mk_ok, None)
    if out != "solver-reached":
        res["status"] = "inconclusive"
        res["note"] = "the unfaulted base specification did not reach the solver: %s (%s)" % (out, det)
        return res
    res["counters"]["base_accepted"] += 1
    GRID_SAMPLE[0] = "Control" if (fault == "bad_grid_sample" and pos == 1) else "controls"
    out, det = attempt(mk_bad, fault)
    res["evals"] += 1
    if out == "raised":
        res["counters"]["faults_rejected"] += 1
    else:
        res["violations"].append({
            "kind": "fault-not-rejected", "mech": "C20|not-rejected|%s|%s" % (fault, meth.split("-")[0]),
            "detail": "fault '%s' (position %d) under %s: no exception before the solver (%s)" % (fault, pos, meth, det)})
    res["nontrivial"] = True
    res["sample"] = {"fault": fault, "position": pos, "method": meth, "outcome": out, "message": det}
    return res
