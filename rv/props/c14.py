"""C14 -- scaling arguments never change the meaning of the problem."""
import copy

import numpy as np

from ..gen import ocpgen, expr as E
from . import common as C

ID = "C14"
LEVEL = "exploration"
RULE = ("Random OCP specifications with random positive scale= values (scalar and element-wise) on states, controls, "
        "algebraic variables, global and per-interval variables, set_der(scale=), add_alg(scale=) and subject_to(scale=) "
        "x every method / grid / degree, with guesses.  Twin B is the same specification with every scale removed.  "
        "(i) every physical read-back of A depends on exactly one solver variable with coefficient = the declared scale "
        "(solver variable = physical / scale); (ii) a random point of B is transported into A through physical "
        "coordinates: objective equal; for every declared constraint the multiset of slacks of A equals that of B "
        "divided by its declared scale (bounds included, slacks are bound-aware); every system row of A is a positive "
        "constant multiple of the same row of B across all points (same feasible set, without prescribing which scale "
        "rockit picks; DirectCollocation: the collocation residual of state element e is divided by e's set_der scale); (iii) the start point read back in physical units is identical; (iv) the reference model "
        "evaluated in physical units matches A's objective and declared constraints.  Sub-family 'hoc': control(order=1|2, scale=scalar|element-wise) written against the API directly x MS/SS/DC: (i)-(iii) for the higher-order control.  non-trivial = at least one scale "
        "different from 1 on a quantity that appears in a compared row; distinct = configuration signature x kinds of "
        "scaled objects.")
ASSUMPTIONS = ["read-backs are affine in the solver variables (verified per case; SingleShooting uses x(t0), controls and "
               "variables only)", "row order of the scaled and unscaled NLP coincide (same code path, scale values only differ)"]
ANCHORS = ["direct_method:OptiWrapper.variable", "direct_method:OptiWrapper.transcribe_placeholders"]
CASE_LIMIT = {"quick": 150, "thorough": 300}

PROFILE = {"methods": ["MS", "SS", "DC"], "alg": 0.4, "intgs": ["rk", "expl_euler", "next"],
           "grids": ["uniform", "geometric", "function", "free", "uniform_loc"],
           "N": [1, 2, 3, 4], "M": [1, 2, 3], "degrees": [1, 2, 3, 4], "scales": True, "quad_states": 0.0}


def gen_cases(rng, tier):
    n = 150 if tier == "quick" else 2500
    cases = []
    for i in range(n):
        spec = ocpgen.gen_stage(rng, PROFILE)
        ncon = rng.randint(2, 4)
        spec["constraints"] = []
        for cid in range(ncon):
            c = ocpgen.gen_constraint(rng, spec, cid + 1, grids=["control", "integrator"] + (
                ["integrator_roots"] if spec["method"]["cls"] == "DC" else []), allow_offsets=False)
            if rng.random() < 0.7:
                c["scale"] = ocpgen.rand_constraint_scale(rng, c)
            spec["constraints"].append(c)
        # a constraint with a parametric bound and a scale (bounds must be scaled with the body)
        glob = [p for p in spec["params"] if not p.get("grid") and p.get("role") != "horizon"]
        if glob:
            p = rng.choice(glob)
            spec["constraints"].append({"cid": 40, "form": rng.choice(["le", "ge", "box"]), "grid": "control",
                                        "lhs": [rng.choice(spec["leaves"]["x"])],
                                        "rhs": [E.sym(p["name"], 0, 0)], "scale": ocpgen.rnd(rng, 0.2, 8.0, 3)})
            if spec["constraints"][-1]["form"] == "box":
                c = spec["constraints"][-1]
                c["lb"] = [["-", E.sym(p["name"], 0, 0), ["c", 1.3]]]
                c["ub"] = [["+", E.sym(p["name"], 0, 0), ["c", 0.7]]]
                del c["rhs"]
        for a in spec.get("alg", []):
            if rng.random() < 0.5:
                a["scale"] = ocpgen.rnd(rng, 0.2, 8.0, 3)
        spec["objective"] = ocpgen.gen_objective(rng, spec, rng.randint(1, 2))
        # guesses (constants) for a few symbols
        guesses = []
        for s in spec["states"] + spec["controls"] + [v for v in spec["variables"] if v.get("role") != "horizon"]:
            if rng.random() < 0.6:
                guesses.append({"target": s["name"], "kind": "const", "val": ocpgen.rnd(rng, -2, 2)})
        spec["initial"] = guesses
        cases.append({"spec": spec, "K": 4 if tier == "quick" else 6, "seed": rng.getrandbits(32)})
    from . import c14_hoc
    for i in range(30 if tier == "quick" else 500):
        cases.append(c14_hoc.gen(rng, ocpgen))
    return cases


def classify(case, v):
    return v.get("mech")


def unscaled(spec):
    sp = copy.deepcopy(spec)
    for key in ("states", "controls", "algebraics", "variables"):
        for s in sp.get(key, []):
            s.pop("scale", None)
            s.pop("der_scale", None)
    for c in sp["constraints"]:
        c.pop("scale", None)
    for a in sp.get("alg", []):
        a.pop("scale", None)
    return sp


def scaled_kinds(spec):
    k = set()
    for key, tag in (("states", "x"), ("controls", "u"), ("algebraics", "z"), ("variables", "v")):
        for s in spec.get(key, []):
            if s.get("scale") is not None:
                k.add(tag + ("e" if isinstance(s["scale"], list) else ""))
            if s.get("der_scale") is not None:
                k.add("dx")
    if any(c.get("scale") for c in spec["constraints"]):
        k.add("c")
    if any(a.get("scale") for a in spec.get("alg", [])):
        k.add("alg")
    return "".join(sorted(k))


def decl_scale(s):
    sc = s.get("scale")
    n, m = s["shape"]
    if sc is None:
        return np.ones((n, m))
    if isinstance(sc, (int, float)):
        return np.ones((n, m)) * sc
    return np.array(sc, dtype=float).reshape(n, m)


def run_case(case):
    import casadi as ca
    from . import engine
    from ..obs import nlp, transport, coords
    if case.get("kind") == "hoc":
        from . import c14_hoc
        return c14_hoc.run(case, ID)
    spec = case["spec"]
    sig = C.config_sig(spec, scaled_kinds(spec))
    res = {"sig": sig, "evals": 0, "violations": [],
           "counters": {"variable_relations": 0, "transported_points": 0, "constraint_compares": 0, "system_rows": 0,
                        "reference_points": 0}}
    rng = np.random.default_rng(case["seed"])
    cls = spec["method"]["cls"]
    N = spec["method"]["N"]
    specB = unscaled(spec)
    try:
        obsA = engine.Observed(spec)
        obsB = engine.Observed(specB)
        if cls == "SS":
            # node states are not decision variables: use the initial state instead
            for obs in (obsA, obsB):
                extra = [("x0:" + s["name"], obs.b.stage.value(obs.b.stage.at_t0(obs.b.syms[s["name"]])), s["shape"][1])
                         for s in spec["states"]]
                obs.rb = C.call("sample", coords.ReadBack, obs.b, obs.view, engine.want_grids(spec), None, extra)
    except C.RockitRaised as e:
        res["violations"].append(C.exc_violation(ID, e, "|".join(sig.split("|")[:2])))
        return res
    if cls == "DC":
        keep = ("xc", "uc", "vc", "v", "xi", "xr", "zr")
    elif cls == "MS":
        keep = ("xc", "uc", "vc", "v")
    else:
        keep = ("x0", "uc", "vc", "v")
    names = [n for n in obsA.rb.names if n.split(":")[0] in keep]
    # (i) solver variable = physical / scale
    aff = transport.Affine(obsA, names)
    if aff.nonlinear > 1e-9:
        res["status"] = "inconclusive"
        res["note"] = "read-backs not affine (%.3g)" % aff.nonlinear
        return res
    decl = {}
    for key in ("states", "controls", "algebraics", "variables"):
        for s in spec.get(key, []):
            decl[s["name"]] = s
    o = 0
    for n_, size in zip(aff.names, aff.sizes):
        s = decl[n_.split(":")[1]]
        sc = decl_scale(s).reshape(-1, order="F")          # column-major, as casadi vec
        nel = sc.size
        blockrows = aff.J[o:o + size]
        for r in range(size):
            row = blockrows[r]
            nz = np.nonzero(np.abs(row) > 1e-14)[0]
            want = sc[r % nel]
            res["evals"] += 1
            res["counters"]["variable_relations"] += 1
            if len(nz) != 1 or abs(row[nz[0]] - want) > 1e-12 * (1 + abs(want)) or abs(aff.c[o + r]) > 1e-14:
                res["violations"].append({
                    "kind": "variable-scale", "mech": "C14|solver-variable-not-physical-over-scale|" + n_.split(":")[0],
                    "detail": "%s entry %d: d(physical)/d(solver vars) = %s, declared scale %g" % (
                        n_, r, C.short(row[nz]), want)})
                break
        o += size
        if res["violations"]:
            return res
    # (iii) start point in physical units
    pa = aff.values(obsA.view.x0)
    pb = transport.Affine(obsB, names).values(obsB.view.x0)
    res["evals"] += 1
    if pa.shape != pb.shape or np.max(np.abs(pa - pb)) > 1e-10 * (1 + np.max(np.abs(pb))):
        res["violations"].append({"kind": "start-point", "mech": "C14|start-point-differs-in-physical-units",
                                  "detail": "max difference %.3g" % (np.max(np.abs(pa - pb)) if pa.shape == pb.shape else -1)})
        return res
    # (ii) transported points
    ratios = {}
    patA = C.row_pattern(obsA.view)
    trajA = C.state_columns(obsA.view, obsA.rb, tuple(k + ":" for k in keep))
    if obsA.view.ng != obsB.view.ng:
        res["violations"].append({"kind": "row-count", "mech": "C14|row-count-differs",
                                  "detail": "scaled NLP has %d rows, unscaled %d" % (obsA.view.ng, obsB.view.ng)})
        return res
    for it in range(case["K"]):
        wB = obsB.view.random_point(rng)
        wA, resid, info = transport.transport(obsB, wB, obsA, names + ["tc", "T", "t0"], rng=rng)
        if resid > 1e-8 or info["nonlinear_src"] > 1e-9:
            res["counters"]["transport_failed"] = res["counters"].get("transport_failed", 0) + 1
            continue
        # unobserved directions (grid variables): copy raw values so that both NLPs see the same time grid
        fA, atA = obsA.view.atoms(wA)
        fB, atB = obsB.view.atoms(wB)
        phA, phB = obsA.rb(wA), obsB.rb(wB)
        if not C.finite([a[1] for a in atA], [a[1] for a in atB], [fA, fB]) or np.max(np.abs(phA["tc"] - phB["tc"])) > 1e-9:
            continue
        if max([abs(a[1]) for a in atA] + [abs(a[1]) for a in atB] + [abs(fA)]) > 1e4 or not C.phys_ok(phA, 1e4) \
                or not C.phys_ok(phB, 1e4):
            continue       # badly conditioned point (huge expression values): relative comparison not meaningful
        rt = 1e-8
        if cls == "SS":
            # single shooting: the same physical start is propagated by two differently rounded recursions
            from ..ref import model
            amp = model.RefModel(specB, phB, None).amplification()
            if amp > 1e5:
                res["counters"]["chaotic_points"] = res["counters"].get("chaotic_points", 0) + 1
                continue
            rt = max(1e-8, 1e-12 * amp)
        res["counters"]["transported_points"] += 1
        res["evals"] += 1
        if abs(fA - fB) > rt * (1 + abs(fA) + abs(fB)):
            res["violations"].append({"kind": "objective", "mech": "C14|objective-changed-by-scaling",
                                      "detail": "f scaled %.12g, unscaled %.12g" % (fA, fB)})
            break
        bad = False
        for c in spec["constraints"]:
            sc = c.get("scale") or 1.0
            A = [(a[0], a[1]) for a in atA if a[2] == c["cid"]]
            if isinstance(sc, list):
                # one scale per element: element e of instance i sits at row (first row of the constraint) + i*n + e
                # in the unscaled twin (same row layout); divide row-wise
                rowsB = sorted(a[4] for a in atB if a[2] == c["cid"])
                first = min(int(r_) for r_ in np.nonzero(obsB.view.row_cid == c["cid"])[0]) if rowsB else 0
                con_of = obsB.view.row_con
                B = []
                for a in atB:
                    if a[2] != c["cid"]:
                        continue
                    start = min(int(r_) for r_ in np.nonzero(con_of == con_of[a[4]])[0])
                    B.append((a[0], a[1] / sc[(a[4] - start) % len(sc)]))
            else:
                B = [(a[0], a[1] / sc) for a in atB if a[2] == c["cid"]]
            s_ = 1.0 + max([abs(v) for _, v in A] + [abs(v) for _, v in B] + [0.0])
            un_a, un_b = nlp.match_multiset(A, B, scale=s_, rtol=rt)
            res["evals"] += 1
            res["counters"]["constraint_compares"] += 1
            if un_a or un_b:
                res["violations"].append({
                    "kind": "constraint-scale", "mech": "C14|constraint-not-divided-by-its-scale",
                    "detail": "constraint id %d (%s, scale %s): scaled NLP slacks %s, unscaled/scale %s" % (
                        c["cid"], c["form"], sc, C.short([A[i][1] for i in un_a][:4]), C.short([B[i][1] for i in un_b][:4]))})
                bad = True
                break
        if bad:
            break
        # system rows: positive constant multiples, row by row
        _, gA, lbA, ubA = obsA.view.eval(wA)
        _, gB, lbB, ubB = obsB.view.eval(wB)
        for r in range(obsA.view.ng):
            if obsA.view.row_cid[r] != -1 or not (patA[r] & trajA):
                continue        # declared rows are handled above; pure time-grid rows carry no scale
            for side, (a, b) in enumerate(((gA[r] - lbA[r], gB[r] - lbB[r]), (ubA[r] - gA[r], ubB[r] - gB[r]))):
                if not (np.isfinite(a) and np.isfinite(b)):
                    if np.isfinite(a) != np.isfinite(b):
                        ratios[(r, side)] = ratios.get((r, side), []) + [float("nan")]
                    continue
                if abs(b) < 1e-9:
                    continue
                ratios.setdefault((r, side), []).append(a / b)
    if not res["violations"]:
        for (r, side), lst in ratios.items():
            res["counters"]["system_rows"] += 1
            res["evals"] += 1
            arr = np.array(lst)
            if np.any(~np.isfinite(arr)) or np.any(arr <= 0) or (np.max(arr) - np.min(arr)) > 1e-7 * np.max(np.abs(arr)):
                res["violations"].append({
                    "kind": "system-row-scale", "mech": "C14|system-row-not-a-positive-multiple",
                    "detail": "system row %d (%s): slack ratio scaled/unscaled over the points = %s" % (
                        r, obsA.view.row_site[r], C.short(arr))})
                break
    # (ii-b) DirectCollocation: the collocation residual of state element e is divided by e's set_der(scale=)
    if not res["violations"] and cls == "DC" and ratios:
        start_col = {}          # column of w -> (state name, element index) for interval start nodes
        for s_ in spec["states"]:
            nm = "xi:" + s_["name"]
            if nm not in obsA.rb.names:
                continue
            e_ = obsA.rb.exprs[obsA.rb.names.index(nm)]
            J = ca.jacobian(ca.vec(e_), obsA.view.x).sparsity()
            nel = s_["shape"][0] * s_["shape"][1]
            colind, rowi = J.colind(), J.row()
            for c_ in range(J.size2()):
                for kk in range(colind[c_], colind[c_ + 1]):
                    start_col[c_] = (s_["name"], rowi[kk] % nel)
        dscale = {}
        for s_ in spec["states"]:
            ds = s_.get("der_scale")
            n_, m_ = s_["shape"]
            arr = np.ones(n_ * m_) if ds is None else (np.ones(n_ * m_) * ds if isinstance(ds, (int, float)) else
                                                      np.array(ds, dtype=float).reshape(n_, m_).reshape(-1, order="F"))
            dscale[s_["name"]] = arr
        for (r, side), lst in ratios.items():
            hits = [start_col[c_] for c_ in patA[r] if c_ in start_col]
            if len(hits) != 1:
                continue            # continuity rows touch two start nodes, algebraic rows none
            name, el = hits[0]
            arr = np.array(lst)
            if not np.all(np.isfinite(arr)):
                continue
            want = 1.0 / dscale[name][el]
            res["counters"]["der_scale_rows"] = res["counters"].get("der_scale_rows", 0) + 1
            res["evals"] += 1
            if np.max(np.abs(arr - want)) > 1e-6 * want:
                res["violations"].append({
                    "kind": "der-scale", "mech": "C14|collocation-row-not-divided-by-its-derivative-scale",
                    "detail": "row %d (collocation residual of %s element %d): scaled/unscaled = %s, declared "
                              "set_der scale %g" % (r, name, el, C.short(arr[:3]), dscale[name][el])})
                break
    # (iv) reference in physical units (objective + declared constraints + dynamics with rockit's row scales)
    if not res["violations"]:
        for it in range(2):
            w = obsA.view.random_point(rng)
            n, viol, info = engine.full_compare(spec, obsA.view, obsA.rb, w, tag="scaled NLP vs reference: ")
            res["evals"] += n
            if info.get("discarded"):
                continue
            res["counters"]["reference_points"] += 1
            for v in viol:
                if v["kind"] == "dynamics-mismatch":
                    continue      # which scale a system row carries is not prescribed; (ii) covers the feasible set
                v["mech"] = "C14|reference|" + v["mech"]
                res["violations"].append(v)
            if res["violations"]:
                break
    res["nontrivial"] = res["counters"]["transported_points"] > 0 and bool(scaled_kinds(spec))
    res["sample"] = {"spec": C.spec_digest(spec), "scaled": scaled_kinds(spec),
                     "state_scales": {s["name"]: s.get("scale") for s in spec["states"]}}
    return res
