"""C10 -- the solver starts from exactly the user's initial guess."""
import copy

import numpy as np

from ..gen import ocpgen, expr as E
from . import common as C

ID = "C10"
LEVEL = "exploration"
RULE = ("Random OCP specifications x every method x grids x fixed/free/parametric horizons (with random scales on "
        "symbols), each with a random list of set_initial events: targets = states, controls, global / per-interval "
        "(+include_last) variables, algebraics, T and t0; forms = scalar constant, vector constant, n-by-N and n-by-(N+1) "
        "arrays as numpy 1-D/2-D or DM, expressions of ocp.t; repeated targets (last call wins).  The NLP start point is "
        "read back in physical units through ocp.sample / ocp.value at opti's initial values and compared with a "
        "reference guess model (constants everywhere; time expressions at node times for states, interval start times "
        "for controls and per-interval variables, collocation times for helper states, all computed from the guessed "
        "t0, T and the declared partition; arrays column-wise; zero for anything never given).  The same events applied "
        "after the first transcription must give the same start point, and the NLP functions f, g, lbg, ubg must be "
        "identical with and without guesses.  non-trivial = at least one non-zero guessed quantity compared; distinct = "
        "configuration signature x multiset of (target kind, form).")
ASSUMPTIONS = ["reference guess model follows the property statement",
               "not checked (statement silent): the final-node value of an n-by-N array given for a state; states k>0 "
               "under SingleShooting (not decision variables); non-constant guesses for matrix-valued symbols "
               "(set_initial documents n-by-1 symbols)"]
ANCHORS = ["stage:Stage.set_initial", "sampling_method:SamplingMethod.set_initial",
           "direct_collocation:DirectCollocation.set_initial"]
CASE_LIMIT = {"quick": 120, "thorough": 300}

PROFILE = {"methods": ["MS", "SS", "DC"], "alg": 0.4, "intgs": ["rk", "expl_euler"],
           "grids": ["uniform", "uniform", "geometric", "function", "free", "uniform_loc", "geometric_loc"],
           "t0_kinds": ["num", "free", "param"], "T_kinds": ["num", "free", "free", "param"],
           "N": [1, 2, 3, 4], "M": [1, 2, 3], "degrees": [1, 2, 3, 4], "scales": True, "quad_states": 0.0, "per_interval_matrix": False}


def time_expr(rng):
    e = E.rand_expr(rng, [["t"]], depth=rng.choice([1, 2]))
    if not E.uses(e, "t"):
        e = ["+", e, ["t"]]
    return e


def gen_guess(rng, spec, target, kind):
    N = spec["method"]["N"]
    n, m = target["shape"] if isinstance(target, dict) else (1, 1)
    name = target["name"] if isinstance(target, dict) else target
    forms = ["const"]
    if kind in ("state", "control", "varc", "alg") and m == 1:
        forms += ["expr", "expr", "array"] if kind != "alg" else ["expr", "expr"]   # arrays: documented for states/controls
        if n > 1:
            forms.append("vecconst")
    if kind == "var" and m == 1 and n > 1:
        forms.append("vecconst")
    if kind == "state" and m > 1:
        forms += ["matconst", "matconst"]          # a constant of the symbol's own shape
    form = rng.choice(forms)
    g = {"target": name, "tkind": kind, "form": form}
    if form == "const":
        g.update({"kind": "const", "val": ocpgen.rnd(rng, -2, 2)})
    elif form == "vecconst":
        g.update({"kind": "array", "val": [[ocpgen.rnd(rng, -2, 2)] for _ in range(n)], "as": "DM"})
    elif form == "matconst":
        g.update({"kind": "array", "val": [[ocpgen.rnd(rng, -2, 2) for _ in range(m)] for _ in range(n)], "as": "DM"})
    elif form == "expr":
        g.update({"kind": "expr", "mat": [[time_expr(rng)] for _ in range(n)]})
    else:
        plus = kind == "state" or (kind == "varc" and target.get("include_last"))
        ncol = rng.choice([N, N + 1]) if kind in ("state",) else (N + 1 if plus else N)
        if kind == "control" and rng.random() < 0.3:
            ncol = N + 1
        if kind == "alg":
            ncol = N
        g.update({"kind": "array", "val": [[ocpgen.rnd(rng, -2, 2) for _ in range(ncol)] for _ in range(n)],
                  "as": rng.choice(["numpy", "DM", "numpy1d"] if n == 1 else ["numpy", "DM"]), "ncol": ncol})
    return g


def gen_cases(rng, tier):
    n = 200 if tier == "quick" else 3000
    cases = []
    for i in range(n):
        spec = ocpgen.gen_stage(rng, PROFILE)
        cls = spec["method"]["cls"]
        targets = []
        for s in spec["states"]:
            targets.append((s, "state"))
        for s in spec["controls"]:
            targets.append((s, "control"))
        for s in spec["variables"]:
            if s.get("role") == "horizon":
                continue
            targets.append((s, "varc" if s.get("grid") else "var"))
        if cls == "DC":
            for s in spec["algebraics"]:
                targets.append((s, "alg"))
        guesses = []
        for _ in range(rng.randint(1, 5)):
            t, k = rng.choice(targets)
            guesses.append(gen_guess(rng, spec, t, k))
        for key in ("T", "t0"):
            if spec[key]["kind"] == "free" and rng.random() < 0.5:
                val = ocpgen.rnd(rng, 0.3, 3.0, 3) if key == "T" else ocpgen.rnd(rng, -2, 2, 3)
                guesses.insert(rng.randint(0, len(guesses)), {"target": key, "tkind": "horizon", "form": "const",
                                                              "kind": "const", "val": val})
        cases.append({"spec": spec, "guesses": guesses, "seed": rng.getrandbits(32)})
    for i in range(18 if tier == "quick" else 240):
        G_ = [[ocpgen.rnd(rng, -2, 2) for _ in range(2)] for _ in range(2)]
        sparse = rng.random() < 0.5
        if sparse:
            G_[rng.randrange(2)][rng.randrange(2)] = 0.0
        cases.append({"kind": "shape", "cls": rng.choice(["MS", "SS", "DC"]), "N": rng.choice([1, 1, 2, 3]), "M": rng.choice([1, 2]),
                      "G": G_, "sparse": sparse, "gu": [ocpgen.rnd(rng, -2, 2) for _ in range(2)],
                      "gv": [ocpgen.rnd(rng, -2, 2) for _ in range(3)], "when": rng.choice(["before", "after"]),
                      "seed": rng.getrandbits(32)})
    for i in range(14 if tier == "quick" else 200):
        cases.append({"kind": "spline", "N": rng.choice([2, 3, 4, 5]), "layout": rng.choice(["mixed", "mixed", "equal", "scalar"]),
                      "guess": [[ocpgen.rnd(rng, -2, 2), rng.choice([0.0, ocpgen.rnd(rng, -1, 1)])] for _ in range(2)],
                      "when": rng.choice(["before", "after"]), "t0": ocpgen.rnd(rng, -1, 1, 2), "T": ocpgen.rnd(rng, 0.5, 3, 2),
                      "grid": ocpgen.gen_grid(rng, ["uniform", "geometric", "function"], 3), "seed": rng.getrandbits(32)})
    return cases


def classify(case, v):
    return v.get("mech")


class TEnv:
    def __init__(self, t):
        self.t = t

    def sym(self, *a):
        raise RuntimeError("symbol in a time guess")


def expected_start(spec, guesses, ph0, base=None):
    """Reference start point in physical units.  Returns dict name -> (array, mask) for each read-back that is
    determined by the statement; mask False = not prescribed."""
    from ..ref import grids as G, colloc
    m = spec["method"]
    cls, N, M = m["cls"], m["N"], m.get("M", 1)
    g = m.get("grid") or {"cls": "Uniform"}
    last = {}
    for gs in guesses:
        last[gs["target"]] = gs
    out = {}
    # horizon
    hor = {}
    for key in ("T", "t0"):
        h = spec[key]
        if h["kind"] == "num":
            hor[key] = h["val"]
        elif h["kind"] == "param":
            hor[key] = h["val"]
        else:
            hor[key] = last[key]["val"] if key in last else h["guess"]
            out[key] = (np.array(hor[key]), None)
    T_g, t0_g = hor["T"], hor["t0"]
    if base is not None:
        # alternative hypothesis: times of the guess are computed from another horizon guess than the one in effect
        T_g, t0_g = base
    nrm = np.array(G.uniform(N) if g.get("cls") == "Free" else G.normalized(g, N))
    tc = t0_g + T_g * nrm
    out["tc"] = (tc, None)
    ti = G.integrator_grid(tc, M)
    decl = {}
    for key in ("states", "controls", "algebraics", "variables"):
        for s in spec.get(key, []):
            decl[s["name"]] = s

    def colvals(gs, n, times, per_interval_cols):
        """values (len(times), n) at the given times; per_interval_cols: index of the enclosing interval / node"""
        vals = np.zeros((len(times), n))
        mask = np.ones(len(times), dtype=bool)
        if gs is None:
            return vals, mask
        if gs["kind"] == "const":
            vals[:] = gs["val"]
        elif gs["form"] == "vecconst":
            vals[:] = np.array(gs["val"], dtype=float).reshape(-1)
        elif gs["kind"] == "expr":
            for i, t in enumerate(times):
                vals[i] = [E.ev(row[0], TEnv(float(t))) for row in gs["mat"]]
        else:
            arr = np.array(gs["val"], dtype=float).reshape(n, -1)
            for i, c in enumerate(per_interval_cols):
                if c is None or c >= arr.shape[1]:
                    mask[i] = False
                else:
                    vals[i] = arr[:, c]
        return vals, mask

    for s in spec["states"]:
        if s.get("quad"):
            continue
        n_, m_ = s["shape"]
        gs = last.get(s["name"])
        n = n_ * m_
        if m_ > 1:
            # matrix state: constants only (a scalar, or a matrix of the state's own shape)
            cval = 0.0
            if gs:
                cval = gs["val"] if gs["kind"] == "const" else np.array(gs["val"], dtype=float).reshape(n_, m_).reshape(-1, order="F")
            v = np.zeros((N + 1, n)) + cval
            mk0 = np.ones(N + 1, dtype=bool)
            if cls == "SS":
                mk0[1:] = False
            out["xc:" + s["name"]] = (v.reshape(N + 1, m_, n_).transpose(0, 2, 1), mk0)
            if cls == "DC":
                out["xi:" + s["name"]] = ((np.zeros((N * M + 1, n)) + cval).reshape(
                    N * M + 1, m_, n_).transpose(0, 2, 1), None)
            continue
        ncol = gs.get("ncol") if gs else None
        cols = [k if (ncol == N + 1 or k < N) else None for k in range(N + 1)]
        v, mk = colvals(gs, n, tc, cols)
        if cls == "SS":
            mk[1:] = False
        out["xc:" + s["name"]] = (v.reshape(N + 1, n, 1), mk)
        if cls == "DC":
            colsi = [idx // M for idx in range(N * M)] + [N if ncol == N + 1 else None]
            vi, mki = colvals(gs, n, ti, colsi)
            out["xi:" + s["name"]] = (vi.reshape(N * M + 1, n, 1), mki)
            d = m.get("degree", 4)
            tau = np.array(colloc.points(d, m.get("scheme", "radau")))
            tr = np.concatenate([ti[idx] + tau * (ti[idx + 1] - ti[idx]) for idx in range(N * M)])
            colsr = [idx // M for idx in range(N * M) for _ in range(d)]
            vr, mkr = colvals(gs, n, tr, colsr)
            out["xr:" + s["name"]] = (vr.reshape(N * M * d, n, 1), mkr)
    for s in spec["controls"]:
        n = s["shape"][0]
        gs = last.get(s["name"])
        v, mk = colvals(gs, n, tc[:-1], list(range(N)))
        out["uc:" + s["name"]] = (v.reshape(N, n, 1), mk)
    for s in spec["variables"]:
        if s.get("role") == "horizon":
            continue
        gs = last.get(s["name"])
        n_, m_ = s["shape"]
        if not s.get("grid"):
            if gs is None:
                val = np.zeros((n_, m_))
            elif gs["kind"] == "const":
                val = np.zeros((n_, m_)) + gs["val"]
            else:
                val = np.array(gs["val"], dtype=float).reshape(n_, m_)
            out["v:" + s["name"]] = (val, None)
        else:
            K = N + 1 if s.get("include_last") else N
            v, mk = colvals(gs, n_, tc[:K], list(range(K)))
            out["vc:" + s["name"]] = (v.reshape(K, n_, 1), mk)
    if cls == "DC":
        d = m.get("degree", 4)
        tau = np.array(colloc.points(d, m.get("scheme", "radau")))
        tr = np.concatenate([ti[idx] + tau * (ti[idx + 1] - ti[idx]) for idx in range(N * M)])
        for s in spec["algebraics"]:
            gs = last.get(s["name"])
            n = s["shape"][0]
            colsr = [idx // M for idx in range(N * M) for _ in range(d)]
            v, mk = colvals(gs, n, tr, colsr)
            out["zr:" + s["name"]] = (v.reshape(N * M * d, n, 1), mk)
    return out


def compare_start(spec, guesses, obs, res, where):
    ph = obs.rb(obs.view.x0, obs.view.p0)
    nv0 = len(res["violations"])
    _compare_with(spec, guesses, ph, expected_start(spec, guesses, ph), res, where)
    if len(res["violations"]) == nv0:
        return True
    # Is the discrepancy exactly "time base of the guesses = FreeTime default instead of the user's set_initial
    # value for T / t0"?  (documented mechanism, see known_findings.json)
    user = {g["target"]: g["val"] for g in guesses if g["target"] in ("T", "t0")}
    g = spec["method"].get("grid") or {}
    if "after" in where and user and (g.get("localize_t0") or g.get("localize_T") or g.get("cls") == "Free"):
        # documented mechanism: a horizon guess given after the first transcription does not refresh the start values
        # of the grid's own variables (per-interval start times / lengths).  Only quantities that depend on the time
        # grid may be off; everything else must still match.
        bad = res["violations"][nv0:]
        timeless_ok = all(v["mech"].split("|")[2] == "tc" or v["mech"].split("|")[3] == "expr" for v in bad)
        if timeless_ok:
            del res["violations"][nv0:]
            res["violations"].append({
                "kind": "start-point", "where": where, "mech": "C10|localized-grid-start-stale-after-transcription",
                "detail": "%s: grid %s, horizon guess %s given after transcription; time-grid dependent start values "
                          "are stale, e.g. %s" % (where, C.grid_tag(g), user, bad[0]["detail"][:300])})
            return False
    if user and False:
        dflt = {}
        for key in ("T", "t0"):
            h = spec[key]
            dflt[key] = h["guess"] if h["kind"] == "free" else h["val"]
        eff = {key: user.get(key, dflt[key]) for key in ("T", "t0")}
        for Tb in {eff["T"], dflt["T"]}:
            for t0b in {eff["t0"], dflt["t0"]}:
                if (Tb, t0b) == (eff["T"], eff["t0"]):
                    continue
                trial = {"violations": [], "evals": 0, "counters": {"quantities": 0, "nonzero_quantities": 0}}
                _compare_with(spec, guesses, ph, expected_start(spec, guesses, ph, base=(Tb, t0b)), trial, where)
                if not trial["violations"]:
                    first = res["violations"][nv0]
                    del res["violations"][nv0:]
                    res["violations"].append({
                        "kind": "start-point", "where": where,
                        "mech": "C10|guess-times-use-FreeTime-default-not-user-horizon-guess|%s" % (
                            "before" if "before" in where else "after"),
                        "detail": "%s: every guessed quantity matches the guess model once time expressions / the "
                                  "grid are evaluated with (T, t0) = (%g, %g) instead of the user's set_initial values "
                                  "(%g, %g); first discrepancy: %s" % (where, Tb, t0b, eff["T"], eff["t0"],
                                                                       first["detail"][:300])})
                    return False
    return False


def _compare_with(spec, guesses, ph, exp, res, where):
    N = spec["method"]["N"]
    for name, (want, mask) in exp.items():
        got = ph[name]
        if name in ("T", "t0"):
            got = np.array(got)
        if name.startswith(("uc:",)):
            got = got[:N]
        if name.startswith("vc:"):
            got = got[:want.shape[0]]
        got = np.array(got, dtype=float)
        if got.shape != np.array(want).shape:
            got = got.reshape(np.array(want).shape)
        diff = np.abs(got - want)
        if mask is not None:
            diff = diff[mask]
        res["evals"] += 1
        res["counters"]["quantities"] += 1
        if np.any(np.abs(want) > 0):
            res["counters"]["nonzero_quantities"] += 1
        if diff.size and float(np.max(diff)) > 1e-9 * (1 + float(np.max(np.abs(want)))):
            tk = [g for g in guesses if g["target"] == name.split(":")[-1]]
            form = tk[-1]["form"] if tk else ("grid" if name == "tc" else "default")
            kind = name.split(":")[0]
            idx = np.argwhere(np.abs(got - want) > 1e-9 * (1 + np.max(np.abs(want))))
            res["violations"].append({
                "kind": "start-point", "mech": "C10|start-point|%s|%s|%s" % (kind, form, spec["method"]["cls"]),
                "where": where,
                "detail": "%s: %s starts at %s, the guess model gives %s (first differing index %s; guess events for it: %s)"
                          % (where, name, C.short(got.reshape(got.shape[0], -1) if got.ndim > 1 else got),
                             C.short(np.array(want).reshape(np.array(want).shape[0], -1) if np.array(want).ndim > 1 else want),
                             idx[0].tolist() if len(idx) else None, [(g["form"], g.get("ncol")) for g in tk])})
    return not res["violations"]


def run_shape(case):
    """Constants of a symbol's own shape (row- and matrix-valued symbols, dense or sparse values) start every node /
    interval at that constant, for every N including N=1."""
    import casadi as ca
    import rockit
    from ..obs import nlp
    res = {"sig": "shape|%s|N%dM%d|%s" % (case["cls"], case["N"], case["M"], "sparse" if case["sparse"] else "dense"), "evals": 0,
           "violations": [], "counters": {"quantities": 0, "nonzero_quantities": 0, "nlp_identity": 0, "post_transcription": 0}}
    G = np.array(case["G"], dtype=float)
    gu, gv = np.array(case["gu"], dtype=float).reshape(1, -1), np.array(case["gv"], dtype=float).reshape(1, -1)
    try:
        ocp = rockit.Ocp(t0=0, T=1.5)
        X = ocp.state(2, 2)
        u = ocp.control(1, 2)
        v = ocp.variable(1, 3, grid="control")
        ocp.set_der(X, -X + ca.sum2(u))
        ocp.add_objective(ocp.at_tf(ca.sumsqr(X)) + ocp.sum(ca.sumsqr(u) + ca.sumsqr(v)))
        gX = ca.sparsify(ca.DM(G)) if case["sparse"] else ca.DM(G)
        if case["when"] == "before":
            ocp.set_initial(X, gX)
            ocp.set_initial(u, ca.DM(gu))
            ocp.set_initial(v, ca.DM(gv))
        if case["cls"] == "MS":
            ocp.method(rockit.MultipleShooting(N=case["N"], M=case["M"], intg="rk"))
        elif case["cls"] == "SS":
            ocp.method(rockit.SingleShooting(N=case["N"], M=case["M"], intg="rk"))
        else:
            ocp.method(rockit.DirectCollocation(N=case["N"], M=case["M"], degree=2))
        ocp.solver("ipopt", {"ipopt.print_level": 0, "print_time": False})
        if case["when"] == "after":
            C.call("transcribe(first)", lambda: ocp._transcribed)
            for sym_, val_ in ((X, gX), (u, ca.DM(gu)), (v, ca.DM(gv))):
                C.call("set_initial(after)", ocp.set_initial, sym_, val_)
            res["counters"]["post_transcription"] += 1
        view = C.call("transcribe", nlp.NlpView, ocp)
        outs = [C.call("sample", ocp.sample, q_, grid="control")[1] for q_ in (X, u, v)]
        F = ca.Function("s", [view.x, view.p], [ca.MX(o_) for o_ in outs])
    except C.RockitRaised as e:
        res["violations"].append(C.exc_violation(ID, e, "shape|%s|N%d" % (case["cls"], case["N"])))
        return res
    opti = view.opti
    x0 = np.array(opti.debug.value(view.x, opti.initial())).reshape(-1)
    sx, su, sv = [np.array(a_, dtype=float) for a_ in F(x0, view.p0)]
    N = case["N"]
    checks = [("state(2,2)", sx.reshape(2, -1), G, N + 1 if case["cls"] != "SS" else 1),
              ("control(1,2)", su.reshape(1, -1), gu, N), ("variable(1,3,grid='control')", sv.reshape(1, -1), gv, N)]
    for nm, arr, want, nn in checks:
        m_ = want.shape[1]
        for k in range(nn):
            got = arr[:, k * m_:(k + 1) * m_]
            res["evals"] += 1
            res["counters"]["quantities"] += 1
            res["counters"]["nonzero_quantities"] += 1
            if got.shape != want.shape or np.max(np.abs(got - want)) > 1e-12:
                res["violations"].append({
                    "kind": "start-point", "mech": "C10|start-point|own-shape-constant|%s|%s" % (
                        nm.split("(")[0], "N1" if N == 1 else "N>1"),
                    "detail": "%s under %s (N=%d, guess given %s transcription, %s value): node/interval %d starts at %s, the "
                              "guess is %s" % (nm, case["cls"], N, case["when"], "sparse" if case["sparse"] else "dense", k,
                                               C.short(got), C.short(want))})
                return res
    res["nontrivial"] = True
    res["sample"] = {"family": "own-shape constants", "cls": case["cls"], "N": N, "sparse": case["sparse"]}
    return res


def run_spline(case):
    """SplineMethod: constant and linear-in-time guesses for the head of a chain are reproduced exactly by the spline
    (coefficients at the Greville points reproduce linear functions), component by component of a vector state."""
    import casadi as ca
    import rockit
    from ..gen import build
    from ..obs import nlp
    res = {"sig": "spline|N%d|%s|%s|%s" % (case["N"], case["layout"], case["when"], C.grid_tag(case["grid"])), "evals": 0,
           "violations": [], "counters": {"quantities": 0, "nonzero_quantities": 0, "nlp_identity": 0, "post_transcription": 0}}
    try:
        ocp = rockit.Ocp(t0=case["t0"], T=case["T"])
        if case["layout"] == "scalar":
            p = ocp.state()
            u1 = ocp.control()
            ocp.set_der(p, u1)
            comps = 1
        else:
            p = ocp.state(2)
            comps = 2
            if case["layout"] == "mixed":
                # the two components head chains of different length
                q = ocp.state()
                u1, u2 = ocp.control(), ocp.control()
                ocp.set_der(p, ca.vertcat(q, u1))
                ocp.set_der(q, u2)
            else:
                uu = ocp.control(2)
                ocp.set_der(p, uu)
        ocp.add_objective(ocp.sum(ca.sumsqr(p), include_last=True))
        gexpr = ca.vertcat(*[case["guess"][j][0] + case["guess"][j][1] * ocp.t for j in range(comps)])
        if case["when"] == "before":
            ocp.set_initial(p, gexpr)
        ocp.method(rockit.SplineMethod(N=case["N"], grid=build.make_grid(case["grid"])))
        ocp.solver("ipopt", {"ipopt.print_level": 0, "print_time": False})
        if case["when"] == "after":
            C.call("transcribe(first)", lambda: ocp._transcribed)
            C.call("set_initial(after)", ocp.set_initial, p, gexpr)
            res["counters"]["post_transcription"] += 1
        view = C.call("transcribe", nlp.NlpView, ocp)
        tt, vv = C.call("sample", ocp.sample, p, grid="control", refine=2)
        F = ca.Function("s", [view.x, view.p], [ca.MX(tt), ca.MX(vv)])
    except C.RockitRaised as e:
        res["violations"].append(C.exc_violation(ID, e, "spline|" + case["layout"]))
        return res
    opti = view.opti
    x0 = np.array(opti.debug.value(view.x, opti.initial())).reshape(-1)
    t_, v_ = [np.array(a_, dtype=float) for a_ in F(x0, view.p0)]
    t_ = t_.reshape(-1)
    v_ = v_.reshape(comps, -1)
    for j in range(comps):
        want = case["guess"][j][0] + case["guess"][j][1] * t_
        res["evals"] += 1
        res["counters"]["quantities"] += 1
        res["counters"]["nonzero_quantities"] += int(np.any(want != 0))
        if np.max(np.abs(v_[j] - want)) > 1e-9 * (1 + np.max(np.abs(want))):
            res["violations"].append({
                "kind": "start-point", "mech": "C10|start-point|spline-state|%s" % case["layout"],
                "detail": "SplineMethod, component %d of the chain head: starts at %s, the guess %g%+g*t gives %s (guess given "
                          "%s transcription)" % (j, C.short(v_[j][:5]), case["guess"][j][0], case["guess"][j][1],
                                                 C.short(want[:5]), case["when"])})
            return res
    res["nontrivial"] = True
    res["sample"] = {"family": "SplineMethod", "layout": case["layout"], "N": case["N"], "guess": case["guess"]}
    return res


def run_case(case):
    from ..gen import build
    from . import engine
    if case.get("kind") == "spline":
        return run_spline(case)
    if case.get("kind") == "shape":
        return run_shape(case)
    spec = case["spec"]
    guesses = case["guesses"]
    forms = ",".join(sorted("%s:%s" % (g["tkind"], g["form"]) for g in guesses))
    sig = C.config_sig(spec, forms)
    res = {"sig": sig, "evals": 0, "violations": [],
           "counters": {"quantities": 0, "nonzero_quantities": 0, "nlp_identity": 0, "post_transcription": 0}}
    rng = np.random.default_rng(case["seed"])
    # A: guesses given before the first transcription
    specA = copy.deepcopy(spec)
    specA["initial"] = guesses
    try:
        obsA = engine.Observed(specA)
    except C.RockitRaised as e:
        forms_short = ",".join(sorted({"%s:%s" % (g["tkind"], g["form"]) for g in guesses}))
        res["violations"].append(C.exc_violation(ID, e, "%s|%s" % (spec["method"]["cls"], forms_short)))
        obsA = None
    if obsA is not None:
        compare_start(spec, guesses, obsA, res, "guesses before transcription")
    # B: no guesses at all -> NLP functions identical; then the same guesses after transcription
    try:
        obsB = engine.Observed(copy.deepcopy(spec))
    except C.RockitRaised as e:
        res["violations"].append(C.exc_violation(ID, e, spec["method"]["cls"] + "|no-guess"))
        return res
    if obsA is not None and obsA.view.nx == obsB.view.nx and obsA.view.ng == obsB.view.ng:
        for _ in range(2):
            w = obsB.view.random_point(rng)
            a = obsA.view.eval(w)
            bb = obsB.view.eval(w)
            res["evals"] += 1
            res["counters"]["nlp_identity"] += 1
            same = all(np.array_equal(np.nan_to_num(np.asarray(x), nan=1e300), np.nan_to_num(np.asarray(y), nan=1e300))
                       or np.allclose(x, y, rtol=1e-12, atol=1e-12, equal_nan=True) for x, y in zip(a, bb))
            if not same:
                res["violations"].append({"kind": "guess-changed-nlp", "mech": "C10|guess-changed-nlp",
                                          "detail": "f/g/lbg/ubg differ between the OCP with and without guesses"})
                break
    elif obsA is not None:
        res["violations"].append({"kind": "guess-changed-nlp", "mech": "C10|guess-changed-nlp-size",
                                  "detail": "NLP size differs with guesses: nx %d vs %d, ng %d vs %d" % (
                                      obsA.view.nx, obsB.view.nx, obsA.view.ng, obsB.view.ng)})
    try:
        build.declare_initial(obsB.b, guesses)   # b.spec has no 'initial'; pass events explicitly
    except Exception as e:  # noqa
        forms_short = ",".join(sorted({"%s:%s" % (g["tkind"], g["form"]) for g in guesses}))
        res["violations"].append(C.exc_violation(ID, C.RockitRaised("set_initial(after transcription)", e),
                                                 "%s|%s" % (spec["method"]["cls"], forms_short)))
        return res
    obsB.refresh()
    res["counters"]["post_transcription"] += 1
    nv = len(res["violations"])
    compare_start(spec, guesses, obsB, res, "guesses after transcription")
    if obsA is not None and len(res["violations"]) == nv and obsA.view.nx == obsB.view.nx:
        res["evals"] += 1
        d = float(np.max(np.abs(obsA.view.x0 - obsB.view.x0))) if obsA.view.nx else 0.0
        if d > 1e-9:
            res["violations"].append({"kind": "before-after-differ", "mech": "C10|before-after-transcription-differ",
                                      "detail": "solver start vectors differ by %.3g between guesses given before and "
                                                "after the first transcription" % d})
    res["nontrivial"] = res["counters"]["nonzero_quantities"] > 0
    res["sample"] = {"spec": C.spec_digest(spec), "guesses": [(g["target"], g["form"]) for g in guesses]}
    return res
