"""C18 -- saving and loading an OCP preserves the problem."""
import copy
import os

import numpy as np

from ..gen import ocpgen, expr as E
from . import common as C

ID = "C18"
LEVEL = "exploration"
RULE = ("Random OCP specifications (all symbol kinds incl. matrix-valued, DAEs, scaling, free / parametric horizons, "
        "constraints, objective, guesses, parameter values) x every method, saved (i) before the first transcription, "
        "(ii) after it, (iii) after a solve, optionally after set_value / set_initial updates on the transcribed problem. "
        "Ocp.load gives a second OCP whose NLP is compared with the original's: same sizes, identical f, g, lbg, ubg at "
        "random decision vectors, identical parameter vector and start point; its symbols are taken from the usual "
        "accessors (states, controls, algebraics, parameters, variables) in order and used to read the loaded problem in "
        "physical coordinates, which must coincide with the original's at the same decision vector; the solver settings "
        "are sensed behaviourally (same ipopt iteration count / return status under a random small max_iter).  The "
        "original is transcribed again after saving and must give the NLP it had before.  non-trivial = loaded NLP with "
        "at least one row compared; distinct = configuration signature x save phase x updates.")
ASSUMPTIONS = ["NLP extraction (rv.obs.nlp)", "variable order of two transcriptions of the same specification coincide "
               "(same code path)", "solves use rk / collocation only and a small iteration limit"]
ANCHORS = ["ocp:Ocp.save", "ocp:Ocp.load", "casadi_helpers:rockit_pickle_context"]
CASE_LIMIT = {"quick": 180, "thorough": 300}

PROFILE = {"methods": ["MS", "SS", "DC"], "alg": 0.4, "intgs": ["rk", "expl_euler"],
           "grids": ["uniform", "geometric", "free", "uniform_loc"], "scales": True,
           "N": [1, 2, 3], "M": [1, 2], "degrees": [1, 2, 3, 4], "quad_states": 0.2}


def gen_cases(rng, tier):
    n = 90 if tier == "quick" else 1200
    cases = []
    for i in range(n):
        spec = ocpgen.gen_stage(rng, PROFILE)
        spec["constraints"] = [ocpgen.gen_constraint(rng, spec, cid + 1, grids=["control", "integrator"],
                                                     allow_offsets=rng.random() < 0.3) for cid in range(rng.randint(1, 3))]
        spec["objective"] = ocpgen.gen_objective(rng, spec, rng.randint(1, 2))
        guesses = []
        for s in spec["states"] + spec["controls"]:
            if not s.get("quad") and rng.random() < 0.5:
                guesses.append({"target": s["name"], "kind": "const", "val": ocpgen.rnd(rng, -2, 2)})
        if rng.random() < 0.5:
            # guesses in the containers users have at hand: numpy arrays per control interval, horizon guesses
            from . import c10
            for s in spec["states"] + spec["controls"]:
                if not s.get("quad") and s["shape"][1] == 1 and rng.random() < 0.5:
                    g = c10.gen_guess(rng, spec, s, "state" if s in spec["states"] else "control")
                    if g["kind"] == "array" and "ncol" in g:
                        g["as"] = "numpy"
                    guesses.append(g)
            for key in ("T", "t0"):
                if spec[key]["kind"] == "free" and rng.random() < 0.7:
                    val = ocpgen.rnd(rng, 0.3, 3.0, 3) if key == "T" else ocpgen.rnd(rng, -2, 2, 3)
                    guesses.insert(rng.randint(0, len(guesses)), {"target": key, "kind": "const", "val": val})
        for p_ in spec["params"]:
            if p_.get("value") is not None and p_.get("role") != "horizon":
                p_["value_as"] = rng.choice(["DM", "numpy", "numpy"])
        gv_ = [v_ for v_ in spec["variables"] if not v_.get("grid") and v_.get("role") != "horizon" and v_["shape"] == [1, 1]]
        xs_ = [s_ for s_ in spec["states"] if not s_.get("quad") and s_["shape"][1] == 1]
        if len(gv_) >= 2 and xs_ and rng.random() < 0.8:
            # guesses written in terms of other guessed quantities (the order in which they are applied matters)
            x_ = rng.choice(xs_)
            guesses = [g_ for g_ in guesses if g_["target"] not in (gv_[0]["name"], gv_[1]["name"], x_["name"])]
            guesses += [{"target": gv_[0]["name"], "kind": "const", "val": ocpgen.rnd(rng, 0.5, 2), "chain": True},
                        {"target": gv_[1]["name"], "kind": "expr", "expr": ["+", E.sym(gv_[0]["name"]), ["c", 1.0]], "chain": True},
                        {"target": x_["name"], "kind": "expr", "chain": True,
                         "mat": [[["*", E.sym(gv_[1]["name"]), ["+", ["t"], ["c", 0.5 + i_]]]] for i_ in range(x_["shape"][0])]}]
        spec["initial"] = guesses
        phase = rng.choice(["before", "after_transcription", "after_solve", "after_edit"])
        if spec["method"]["cls"] in ("MS", "SS") and spec["method"].get("intg") not in ("rk", "expl_euler") \
                and phase != "after_edit":
            phase = "before"
        edit = None
        if phase == "after_edit":
            # save of an OCP that was transcribed and then edited (the transcription is stale at save time)
            kind = rng.choice(["subject_to", "add_objective", "solver", "method"])
            edit = {"kind": kind}
            if kind == "subject_to":
                edit["constraint"] = ocpgen.gen_constraint(rng, spec, 77, grids=["control"], allow_offsets=False)
            elif kind == "add_objective":
                edit["term"] = ocpgen.gen_objective(rng, spec, 1, allow=["at_tf", "sum"])[0]
            elif kind == "method":
                m2 = copy.deepcopy(spec["method"])
                m2["M"] = 3 - m2.get("M", 1) if m2.get("M", 1) in (1, 2) else 1
                if m2["cls"] == "Spline":
                    m2.pop("M", None)
                edit["method"] = m2
        maxit = rng.choice([0, 1, 2, 3])
        spec["solver_options"] = {"ipopt.max_iter": maxit, "ipopt.print_level": 0, "print_time": False,
                                  "ipopt.hessian_approximation": "limited-memory"}
        updates = []
        if phase != "before" and rng.random() < 0.6:
            for _ in range(rng.randint(1, 2)):
                from .c09 import concat_event
                ce_ = concat_event(rng, spec, spec["method"]["N"]) if rng.random() < 0.3 else None
                if ce_:
                    # one set_value for a concatenation of parameters
                    updates.append(dict(ce_, op="set_value_cat", name="+".join(ce_["names"])))
                elif spec["params"] and rng.random() < 0.6:
                    p = rng.choice(spec["params"])
                    from .c09 import rand_value
                    updates.append({"op": "set_value", "name": p["name"], "value": rand_value(rng, p, spec["method"]["N"]),
                                    "value_as": rng.choice(["DM", "numpy"]) if p.get("role") != "horizon" else "DM"})
                elif spec["controls"]:
                    u = rng.choice(spec["controls"])
                    updates.append({"op": "set_initial", "name": u["name"], "value": ocpgen.rnd(rng, -2, 2)})
        resave = []
        if phase == "before" and rng.random() < 0.4:
            # checkpointing: save, change values / guesses on the (still untranscribed) OCP, save to the same file again
            for _ in range(rng.randint(1, 2)):
                if spec["params"] and rng.random() < 0.6:
                    p = rng.choice(spec["params"])
                    from .c09 import rand_value
                    resave.append({"op": "set_value", "name": p["name"], "value": rand_value(rng, p, spec["method"]["N"]),
                                   "value_as": rng.choice(["DM", "numpy"]) if p.get("role") != "horizon" else "DM"})
                elif spec["controls"]:
                    u = rng.choice(spec["controls"])
                    resave.append({"op": "set_initial", "name": u["name"], "value": ocpgen.rnd(rng, -2, 2)})
        if any(g_.get("chain") for g_ in spec["initial"]) and (
                phase in ("after_solve", "after_edit") or updates or any(u_["op"] == "set_initial" for u_ in resave)):
            # a chain of guesses is only defined by the passes rockit makes over it: every set_initial, and every
            # set_value that refreshes guesses, on the transcribed OCP makes another pass on the live instance; kept to
            # histories where the original and the loaded OCP see the same number of passes
            spec["initial"] = [g_ for g_ in spec["initial"] if not g_.get("chain")]
        cases.append({"spec": spec, "phase": phase, "updates": updates, "seed": rng.getrandbits(32), "edit": edit,
                      "resave": resave,
                      "solve_loaded": rng.random() < 0.5})
    # multi-stage problems (stages declared directly and cloned from a template, parent variable / parameter, couplings)
    from . import c12
    for mc in c12.gen_cases(rng, tier)[: (25 if tier == "quick" else 250)]:
        mc["kind"] = "multistage"
        mc["phase"] = rng.choice(["before", "after_transcription"])
        mc["pp_update"] = ocpgen.rnd(rng, 0.3, 2.0) if (mc["phase"] != "before" and rng.random() < 0.5) else None
        mc["sub_update"] = rng.random() < 0.5
        cases.append(mc)
    return cases


def run_multistage(case):
    """save / load of a multi-stage OCP: the loaded problem must transcribe to the same NLP data"""
    import rockit
    from ..gen import build
    from ..obs import nlp
    from . import c12
    res = {"sig": "multistage|%s|%s|%s" % (case["mode"], case["phase"], "||".join(
        C.config_sig(sp).rsplit("|", 1)[0] for sp in case["stages"])), "evals": 0, "violations": [],
        "counters": {"nlp_points": 0, "multistage": 1}}
    rng = np.random.default_rng(case["seed"])
    fname = os.path.join(os.getcwd(), "c18m_%d.rockit" % case["seed"])
    try:
        ocp, pv, pp, builts, tmpl, tmpl_snap, _ = C.call("declare", c12.build_multistage, case)
        if case["phase"] != "before":
            C.call("transcribe", nlp.NlpView, ocp)
            if case.get("pp_update") is not None:
                C.call("set_value(parent, transcribed)", ocp.set_value, pp, case["pp_update"])
            if case.get("sub_update"):
                for b in builts:
                    for p_ in b.spec["params"][:1]:
                        from .c09 import rand_value
                        val = rand_value(__import__("random").Random(case["seed"]), p_, b.spec["method"]["N"])
                        C.call("set_value(stage, transcribed)", b.stage.set_value, b.syms[p_["name"]],
                               build.param_value({"value": val}))
        v0 = None
        if case["phase"] != "before":
            v0 = nlp.NlpView(ocp)
            pts = [v0.random_point(rng) for _ in range(3)]
            ref = [(v0.eval(w, v0.p0)) for w in pts]
            ref_x0, ref_p0 = v0.x0.copy(), v0.p0.copy()
        C.call("save", ocp.save, fname)
        ocp2 = C.call("load", rockit.Ocp.load, fname)
        v1 = C.call("transcribe(original after save)", nlp.NlpView, ocp)
        if v0 is None:
            pts = [v1.random_point(rng) for _ in range(3)]
            ref = [(v1.eval(w, v1.p0)) for w in pts]
            ref_x0, ref_p0 = v1.x0.copy(), v1.p0.copy()
        v2 = C.call("transcribe(loaded)", nlp.NlpView, ocp2)
    except C.RockitRaised as e:
        res["violations"].append(C.exc_violation(ID, e, "multistage|" + case["phase"]))
        return res
    finally:
        try:
            os.unlink(fname)
        except OSError:
            pass
    for tag, v, mech in (("loaded OCP", v2, "loaded"), ("original after save()", v1, "original-after-save")):
        res["evals"] += 1
        if (v.nx, v.ng, v.np) != (len(ref_x0), len(ref[0][1]), len(ref_p0)):
            res["violations"].append({"kind": "size", "mech": "C18|%s|nlp-size|multistage" % mech,
                                      "detail": "%s: sizes %s vs %s" % (tag, (v.nx, v.ng, v.np), (len(ref_x0), len(ref[0][1]), len(ref_p0)))})
            return res
        if v.np and np.max(np.abs(v.p0 - ref_p0)) > 1e-12:
            res["violations"].append({"kind": "parameters", "mech": "C18|%s|parameter-values|multistage" % mech,
                                      "detail": "%s: parameter vector %s, original %s" % (tag, C.short(v.p0), C.short(ref_p0))})
            return res
        if v.nx and np.max(np.abs(v.x0 - ref_x0)) > 1e-12:
            res["violations"].append({"kind": "start", "mech": "C18|%s|start-point|multistage" % mech,
                                      "detail": "%s: start point differs by %.3g" % (tag, np.max(np.abs(v.x0 - ref_x0)))})
            return res
        for w, (f0, g0, lb0, ub0) in zip(pts, ref):
            f1, g1, lb1, ub1 = v.eval(w, v.p0)
            res["evals"] += 1
            res["counters"]["nlp_points"] += 1
            if not all(np.allclose(a, b_, rtol=1e-11, atol=1e-11, equal_nan=True) for a, b_ in
                       ((f0, f1), (g0, g1), (lb0, lb1), (ub0, ub1))):
                res["violations"].append({"kind": "nlp", "mech": "C18|%s|nlp-functions|multistage" % mech,
                                          "detail": "%s: f %.12g vs %.12g" % (tag, f1, f0)})
                return res
    res["nontrivial"] = res["counters"]["nlp_points"] > 0
    res["sample"] = {"mode": case["mode"], "phase": case["phase"], "stages": len(case["stages"])}
    return res


def classify(case, v):
    return v.get("mech")


def loaded_built(ocp2, spec):
    """symbol table of the loaded OCP through the usual accessors, in declaration order"""
    from ..gen import build
    b = build.Built(ocp2, ocp2, spec)
    acc = {"states": [s for s in spec["states"] if not s.get("quad")], "qstates": [s for s in spec["states"] if s.get("quad")],
           "controls": spec["controls"], "algebraics": spec["algebraics"]}
    for key, decl in acc.items():
        lst = list(getattr(ocp2, key))
        if len(lst) != len(decl):
            raise C.RockitRaised("accessors", Exception("ocp.%s has %d entries, declared %d" % (key, len(lst), len(decl))))
        for s, sym in zip(decl, lst):
            if tuple(sym.shape) != tuple(s["shape"]):
                raise C.RockitRaised("accessors", Exception("%s: shape %s, declared %s" % (s["name"], sym.shape, s["shape"])))
            b.syms[s["name"]] = sym
    for attr, group in (("parameters", spec["params"]), ("variables", spec["variables"])):
        d = getattr(ocp2, attr)
        for gkey in ("", "control", "control+"):
            decl = [s for s in group if (s.get("grid") or "") + ("+" if s.get("include_last") else "") == gkey]
            lst = list(d[gkey]) if gkey in d else []
            if len(lst) != len(decl):
                raise C.RockitRaised("accessors", Exception("ocp.%s[%r] has %d entries, declared %d" % (
                    attr, gkey, len(lst), len(decl))))
            for s, sym in zip(decl, lst):
                b.syms[s["name"]] = sym
    return b


def run_case(case):
    if case.get("kind") == "multistage":
        return run_multistage(case)
    import rockit
    from ..gen import build
    from . import engine
    spec = case["spec"]
    phase = case["phase"]
    sig = C.config_sig(spec, "%s|%s%s" % (phase, "".join(u["op"][4] for u in case["updates"]),
                                          "|resave" if case.get("resave") else ""))
    res = {"sig": sig, "evals": 0, "violations": [],
           "counters": {"nlp_points": 0, "physical_points": 0, "solver_sensed": 0, "original_after_save": 0}}
    rng = np.random.default_rng(case["seed"])
    fname = os.path.join(os.getcwd(), "c18_%d.rockit" % case["seed"])
    try:
        b = C.call("declare", build.build_ocp, spec)
        obs = None
        stats0 = None
        if phase == "after_edit":
            C.call("transcribe", lambda: b.ocp._transcribed)
            ed = case["edit"]
            spec = copy.deepcopy(spec)
            b.spec = spec
            if ed["kind"] == "subject_to":
                C.call("subject_to(transcribed)", build.declare_constraint, b, ed["constraint"])
                spec["constraints"].append(ed["constraint"])
            elif ed["kind"] == "add_objective":
                C.call("add_objective(transcribed)", b.stage.add_objective, b.ca(ed["term"]))
                spec["objective"].append(ed["term"])
            elif ed["kind"] == "solver":
                opts = dict(spec["solver_options"])
                opts["ipopt.max_iter"] = (opts["ipopt.max_iter"] + 1) % 4
                spec["solver_options"] = opts
                C.call("solver(transcribed)", b.ocp.solver, "ipopt", opts)
            else:
                C.call("method(transcribed)", b.ocp.method, build.make_method(ed["method"]))
                spec["method"] = ed["method"]
                for p_ in spec["params"]:
                    pass
            res["counters"]["saved_with_stale_transcription"] = 1
        elif phase != "before":
            obs = engine.Observed(spec, b)
        if phase == "after_solve":
            try:
                sol = b.ocp.solve_limited()
            except Exception:
                sol = b.ocp.non_converged_solution
            stats0 = sol.stats
        for u in case["updates"]:
            if u["op"] == "set_value_cat":
                from .c09 import do_set_value
                C.call("set_value(concatenation, transcribed)", do_set_value, b, u)
            elif u["op"] == "set_value":
                C.call("set_value(transcribed)", b.stage.set_value, b.syms[u["name"]], build.param_value(u))
            else:
                C.call("set_initial(transcribed)", b.stage.set_initial, b.syms[u["name"]], u["value"])
        if obs is not None:
            obs.refresh()
            ref_x0, ref_p0 = obs.view.x0.copy(), obs.view.p0.copy()
            pts = [obs.view.random_point(rng) for _ in range(3)]
            ref_eval = [obs.view.eval(w, ref_p0) for w in pts]
            ref_phys = [obs.rb(w, ref_p0) for w in pts]
        C.call("save", b.ocp.save, fname)
        if case.get("resave"):
            for u in case["resave"]:
                if u["op"] == "set_value":
                    C.call("set_value(after save)", b.stage.set_value, b.syms[u["name"]], build.param_value(u))
                else:
                    C.call("set_initial(after save)", b.stage.set_initial, b.syms[u["name"]], u["value"])
            C.call("save(again)", b.ocp.save, fname)
            res["counters"]["saved_twice_to_one_file"] = 1
        ocp2 = C.call("load", rockit.Ocp.load, fname)
        # the original after saving
        obs1 = engine.Observed(spec, b)
        if obs is None:
            # reference: the same declarations made afresh on an OCP that is never saved
            b_ref = build.build_ocp(spec)
            for u in list(case["updates"]) + list(case.get("resave") or []):
                if u["op"] == "set_value_cat":
                    from .c09 import do_set_value
                    do_set_value(b_ref, u)
                elif u["op"] == "set_value":
                    b_ref.stage.set_value(b_ref.syms[u["name"]], build.param_value(u))
                else:
                    b_ref.stage.set_initial(b_ref.syms[u["name"]], u["value"])
            obs_ref = engine.Observed(spec, b_ref)
            ref_x0, ref_p0 = obs_ref.view.x0.copy(), obs_ref.view.p0.copy()
            pts = [obs_ref.view.random_point(rng) for _ in range(3)]
            ref_eval = [obs_ref.view.eval(w, ref_p0) for w in pts]
            ref_phys = [obs_ref.rb(w, ref_p0) for w in pts]
            res["counters"]["fresh_reference"] = 1
        b2 = loaded_built(ocp2, spec)
        obs2 = engine.Observed(spec, b2)
    except C.RockitRaised as e:
        res["violations"].append(C.exc_violation(ID, e, phase))
        try:
            os.unlink(fname)
        except OSError:
            pass
        return res
    finally:
        pass
    try:
        os.unlink(fname)
    except OSError:
        pass

    def compare(tag, o, mech):
        v = o.view
        res["evals"] += 1
        if (v.nx, v.ng, v.np) != (len(ref_x0), len(ref_eval[0][1]), len(ref_p0)):
            res["violations"].append({"kind": "size", "mech": "C18|%s|nlp-size" % mech,
                                      "detail": "%s: nx,ng,np = %s, original %s" % (
                                          tag, (v.nx, v.ng, v.np), (len(ref_x0), len(ref_eval[0][1]), len(ref_p0)))})
            return False
        if v.np and np.max(np.abs(v.p0 - ref_p0)) > 1e-12:
            res["violations"].append({"kind": "parameters", "mech": "C18|%s|parameter-values" % mech,
                                      "detail": "%s: parameter vector %s, original %s" % (tag, C.short(v.p0), C.short(ref_p0))})
            return False
        if v.nx and np.max(np.abs(v.x0 - ref_x0)) > 1e-12:
            g = spec["method"].get("grid") or {}
            hor_upd = [u for u in case["updates"] if u["op"] == "set_value" and u["name"] in ("p_T", "p_t0")]
            if hor_upd and (g.get("localize_t0") or g.get("localize_T") or g.get("cls") == "Free") and obs is not None:
                # same root cause as the open C10 finding: start values of the grid's own variables are computed at
                # transcription time only; everything that is not a time-grid quantity must still agree
                pa, pb = obs.rb(ref_x0, ref_p0), o.rb(v.x0, v.p0)
                rest_ok = all(np.allclose(np.asarray(pa[k], dtype=float), np.asarray(pb[k], dtype=float), atol=1e-12)
                              for k in pa if k.split(":")[0] in (("xc", "uc", "vc", "v", "xi", "xr", "zr", "T", "t0")
                                                                  if spec["method"]["cls"] == "DC" else
                                                                  ("xc", "uc", "vc", "v", "T", "t0")
                                                                  if spec["method"]["cls"] == "MS" else
                                                                  ("uc", "vc", "v", "T", "t0")))
                if rest_ok:
                    res["violations"].append({
                        "kind": "start", "mech": "C18|grid-start-values-stale-after-horizon-parameter-update",
                        "detail": "%s: horizon parameter changed on the transcribed problem with a localized grid; the "
                                  "original's control grid starts at %s, the re-transcribed / loaded one at %s" % (
                                      tag, C.short(pa["tc"]), C.short(pb["tc"]))})
                    return False
            res["violations"].append({"kind": "start", "mech": "C18|%s|start-point" % mech,
                                      "detail": "%s: start point differs by %.3g" % (tag, np.max(np.abs(v.x0 - ref_x0)))})
            return False
        for w, (f0, g0, lb0, ub0), ph0 in zip(pts, ref_eval, ref_phys):
            f1, g1, lb1, ub1 = v.eval(w, v.p0)
            res["evals"] += 1
            res["counters"]["nlp_points"] += 1
            ok = all(np.allclose(a, b_, rtol=1e-11, atol=1e-11, equal_nan=True) for a, b_ in
                     ((f0, f1), (g0, g1), (lb0, lb1), (ub0, ub1)))
            if not ok:
                res["violations"].append({"kind": "nlp", "mech": "C18|%s|nlp-functions" % mech,
                                          "detail": "%s: f %.12g vs %.12g, max |dg| %.3g" % (
                                              tag, f1, f0, float(np.nanmax(np.abs(g1 - g0))) if len(g0) else 0)})
                return False
            ph1 = o.rb(w, v.p0)
            res["counters"]["physical_points"] += 1
            for k in ph0:
                a0, a1 = np.asarray(ph0[k], dtype=float), np.asarray(ph1[k], dtype=float)
                if a0.shape != a1.shape or not np.allclose(a0, a1, rtol=1e-11, atol=1e-11, equal_nan=True):
                    res["violations"].append({"kind": "accessors", "mech": "C18|%s|physical-readback" % mech,
                                              "detail": "%s: read-back %s through the accessor symbols differs" % (tag, k)})
                    return False
        return True

    ok = compare("loaded OCP", obs2, "loaded")
    if ok:
        res["counters"]["original_after_save"] += 1
        compare("original after save()", obs1, "original-after-save")
    if ok and case.get("solve_loaded") and spec["method"].get("intg") in (None, "rk", "expl_euler") and not res["violations"]:
        try:
            stats = []
            for o in (obs1, obs2):
                try:
                    s = o.b.ocp.solve_limited()
                except Exception:
                    s = o.b.ocp.non_converged_solution
                stats.append(s.stats)
            res["evals"] += 1
            res["counters"]["solver_sensed"] += 1
            a, bb = stats
            sane = all(isinstance(s_.get("iter_count"), int) and 0 <= s_.get("iter_count") <= 10000 and
                       s_.get("return_status") in ("Maximum_Iterations_Exceeded", "Solve_Succeeded",
                                                   "Solved_To_Acceptable_Level") for s_ in (a, bb))
            # ipopt leaves iter_count uninitialised when it aborts before iterating (e.g. too few degrees of freedom)
            if a.get("return_status") != bb.get("return_status") or (sane and (
                    a.get("iter_count") != bb.get("iter_count") or
                    a.get("iter_count", 0) > spec["solver_options"]["ipopt.max_iter"])):
                res["violations"].append({"kind": "solver-settings", "mech": "C18|solver-settings",
                                          "detail": "original: %s iterations (%s), loaded: %s (%s), max_iter=%d" % (
                                              a.get("iter_count"), a.get("return_status"), bb.get("iter_count"),
                                              bb.get("return_status"), spec["solver_options"]["ipopt.max_iter"])})
        except Exception as e:  # noqa
            res["violations"].append(C.exc_violation(ID, C.RockitRaised("solve after save/load", e), phase))
    res["nontrivial"] = res["counters"]["nlp_points"] > 0
    res["sample"] = {"spec": C.spec_digest(spec), "phase": phase, "updates": [(u["op"], u["name"]) for u in case["updates"]]}
    return res
