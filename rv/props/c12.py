"""C12 -- stages compose without interference and clones equal their template."""
import copy

import numpy as np

from ..gen import ocpgen, expr as E
from . import common as C

ID = "C12"
LEVEL = "exploration"
RULE = ("Random multi-stage OCPs: a state-less parent with its own variable and parameter, 2-3 stages with different "
        "models, methods (MultipleShooting / SingleShooting / DirectCollocation), grids, N, M, fixed or free t0 / T, "
        "per-stage constraints (unique ids), objective terms incl. integrals and explicit time, coupling constraints "
        "between consecutive stages (state continuity + parent variable, time stitching) and parent objective terms.  "
        "Mode 'direct': stages declared one by one; mode 'clone': one template Stage cloned 2-3 times with overridden "
        "t0 / T.  Each stage is read in its own physical coordinates through stage.sample / stage.value and the "
        "reference model of the single-stage transcription is evaluated per stage: the multi-stage NLP must contain "
        "exactly the union of the stages' dynamic rows and declared constraint instances plus the coupling rows; the "
        "objective must be the sum of the stage objectives plus the parent's terms; perturbing the variables of one stage "
        "must leave every row of its siblings unchanged; sol(stage).sample reads the right stage; the template's "
        "declared content is unchanged by cloning / transcription and it can be cloned again.  non-trivial = at least one "
        "stage with rows compared; distinct = mode x per-stage configuration signatures.")
ASSUMPTIONS = ["reference model of the single-stage transcription (validated by C01-C05 against rockit)",
               "per-stage read-backs through stage.sample are the observation boundary"]
ANCHORS = ["stage:Stage.stage", "stage:Stage.clone", "stage:Stage._transcribe_recurse"]
CASE_LIMIT = {"quick": 240, "thorough": 400}

PROFILE = {"methods": ["MS", "SS", "DC"], "intgs": ["rk", "expl_euler"], "alg": 0.2,
           "grids": ["uniform", "geometric", "function"], "t0_kinds": ["num", "free"], "T_kinds": ["num", "free"],
           "N": [1, 2, 3], "M": [1, 2], "degrees": [1, 2, 3], "allow_matrix": False, "quad_states": 0.3, "max_states": 2,
           "time_in_rhs": 0.5, "scales": True}


def gen_cases(rng, tier):
    n = 70 if tier == "quick" else 800
    cases = []
    for i in range(n):
        mode = rng.choice(["direct", "direct", "clone"])
        nst = rng.choice([2, 2, 3])
        stages = []
        if mode == "direct":
            for k in range(nst):
                sp = ocpgen.gen_stage(rng, PROFILE)
                stages.append(sp)
        else:
            base = ocpgen.gen_stage(rng, PROFILE)
            template_h = {"t0": copy.deepcopy(base["t0"]), "T": copy.deepcopy(base["T"])}
            for k in range(nst):
                sp = copy.deepcopy(base)
                if k > 0 or rng.random() < 0.7:
                    for key in ("t0", "T"):
                        if rng.random() < 0.7:
                            kind = rng.choice(["num", "free"])
                            val = ocpgen.rnd(rng, 0.3, 3.0, 3) if key == "T" else ocpgen.rnd(rng, -2, 2, 3)
                            sp[key] = {"kind": "num", "val": val, "override": True} if kind == "num" else \
                                {"kind": "free", "guess": val, "override": True}
                stages.append(sp)
        # constraints / objective per stage (for clones: identical content, declared once on the template)
        for k, sp in enumerate(stages):
            if mode == "clone" and k > 0:
                sp["constraints"] = copy.deepcopy(stages[0]["constraints"])
                sp["objective"] = copy.deepcopy(stages[0]["objective"])
                # a clone may receive its own parameter values after cloning
                from .c09 import rand_value
                for p_ in sp["params"]:
                    if rng.random() < 0.6:
                        p_["value"] = rand_value(rng, p_, sp["method"]["N"])
                        p_["own_value"] = True
                if k == nst - 1 and sp.get("dyn") == "ode" and rng.random() < 0.4:
                    # the last clone declares one derivative again, with its own scale: siblings keep theirs
                    cand_ = [s_ for s_ in sp["states"] if not s_.get("quad")]
                    s_ = rng.choice(cand_)
                    s_["der_scale"] = ocpgen.rnd(rng, 0.2, 8.0, 3)
                    sp["clone_der_scale"] = s_["name"]
                continue
            sp["constraints"] = [ocpgen.gen_constraint(rng, sp, 100 * (k + 1) + j, grids=["control", "integrator"] + (
                ["integrator_roots"] if sp["method"]["cls"] == "DC" else []), allow_offsets=False)
                for j in range(rng.randint(1, 2))]
            sp["objective"] = ocpgen.gen_objective(rng, sp, rng.randint(1, 2))
            if rng.random() < 0.4:
                # the stage's own step lengths inside a term and a constraint
                xl = rng.choice(sp["leaves"]["x"])
                sp["objective"].append(["sum", ["*", ["DTc"], ["sq", xl]]])
                sp["constraints"].append({"cid": 100 * (k + 1) + 50, "form": "le", "grid": "integrator",
                                          "lhs": [["*", ["DT"], xl]], "rhs": [["c", ocpgen.rnd(rng, 0.5, 2.0)]]})
        live_template = mode == "clone" and rng.random() < 0.4
        if live_template:
            # the template is itself the first stage of the OCP (ocp.stage(first_stage, ...) makes the others)
            stages[0]["t0"], stages[0]["T"] = copy.deepcopy(template_h["t0"]), copy.deepcopy(template_h["T"])
        for k, sp in enumerate(stages):
            if (mode == "direct" or k == 0) and rng.random() < 0.3:
                # a placeholder nested in another one of the same stage: at_tf((x - at_t0(x))^2), sum((x - at_t0(x))^2)
                xl = rng.choice(sp["leaves"]["x"])
                sp["objective"].append([rng.choice(["at_tf", "sum"]), ["sq", ["-", xl, ["at_t0", xl]]]])
            if mode == "clone" and k > 0:
                sp["objective"] = copy.deepcopy(stages[0]["objective"])
        # guesses given on the stages (for clones: on the template): a constant for a state, the horizon
        for k, sp in enumerate(stages):
            if mode == "clone" and k > 0:
                sp["stage_guesses"] = copy.deepcopy(stages[0]["stage_guesses"])
                continue
            sp["stage_guesses"] = []
            if rng.random() < 0.6:
                cand_ = [s_ for s_ in sp["states"] if not s_.get("quad")]
                sp["stage_guesses"].append({"target": rng.choice(cand_)["name"], "val": ocpgen.rnd(rng, -2, 2)})
                hz = template_h if mode == "clone" else sp
                for key in ("T", "t0"):
                    # (a clone that overrides the horizon: a number cannot take the template's guess -- rockit raises --
                    # and with FreeTime(guess) two guesses compete; kept out)
                    if hz[key]["kind"] == "free" and rng.random() < 0.7 and not (
                            mode == "clone" and any(q[key].get("override") for q in stages)):
                        sp["stage_guesses"].append({"target": key, "val": ocpgen.rnd(rng, 0.3, 3.0, 3) if key == "T"
                                                    else ocpgen.rnd(rng, -2, 2, 3)})
        couplings = []
        for k in range(nst - 1):
            a, b_ = stages[k], stages[k + 1]
            couplings.append({"cid": 900 + k, "from": k, "to": k + 1, "sa": a["states"][0]["name"],
                              "sb": b_["states"][0]["name"], "use_pv": rng.random() < 0.5,
                              "on": rng.choice(["parent", "parent", "to", "from"])})
            if a["T"]["kind"] == "free" or b_["t0"]["kind"] == "free":
                couplings.append({"cid": 950 + k, "from": k, "to": k + 1, "time": True})
        if live_template:
            # (a coupling declared on the live template would be a declaration on the template after the snapshot)
            for c_ in couplings:
                if (c_.get("on") == "from" and c_["from"] == 0) or (c_.get("on") == "to" and c_["to"] == 0):
                    c_["on"] = "parent"
        tmpl_bspline = rng.choice([1, 2]) if (mode == "clone" and rng.random() < 0.3) else 0
        tmpl_inf = None
        if mode == "clone" and base["method"]["cls"] in ("MS", "SS") and base["method"].get("intg") == "rk" and \
                base.get("dyn") == "ode" and rng.random() < 0.5:
            tmpl_inf = rng.choice(["inf_der", "inf_inert", "plain"])
        late = rng.random() < 0.25
        if late:
            # the last stage is added after a first transcription, with nothing else declared afterwards
            couplings = [c for c in couplings if c["to"] != nst - 1 and c["from"] != nst - 1]
        cases.append({"mode": mode, "stages": stages, "couplings": couplings, "pp": ocpgen.rnd(rng, 0.3, 2.0), "late": late, "tmpl_bspline": tmpl_bspline, "tmpl_inf": tmpl_inf,
                      "live_template": live_template,
                      "template_h": template_h if mode == "clone" else None,
                      "seed": rng.getrandbits(32), "solve": rng.random() < 0.3})
    for i in range(6 if tier == "quick" else 60):
        cases.append({"kind": "spline_sub", "N1": rng.choice([2, 3, 4]), "N2": rng.choice([1, 2, 3]), "other": rng.choice(["MS", "DC"]),
                      "T1": ocpgen.rnd(rng, 0.5, 2, 2), "T2": ocpgen.rnd(rng, 0.5, 2, 2), "x0": ocpgen.rnd(rng, -1, 1),
                      "seed": rng.getrandbits(32)})
    for i in range(8 if tier == "quick" else 80):
        cases.append({"kind": "parent_param", "cls": rng.choice(["MS", "SS", "DC"]), "N": rng.choice([1, 2, 3]), "M": rng.choice([1, 2]),
                      "grid": rng.choice([{"cls": "Uniform", "localize_T": True}, {"cls": "Uniform", "localize_t0": True},
                                          {"cls": "Free"}, {"cls": "Geometric", "growth": 1.7, "localize_T": True}, {"cls": "Uniform"}]),
                      "factor": rng.choice([1.0, 2.0, 0.5]), "pp": [ocpgen.rnd(rng, 0.6, 2.0, 2), ocpgen.rnd(rng, 2.1, 3.5, 2)],
                      "where": rng.choice(["T", "T", "guess", "both"]), "via": rng.choice(["set_value", "set_value", "fresh"]),
                      "seed": rng.getrandbits(32)})
    return cases


def classify(case, v):
    return v.get("mech")


def declare_stage_content(b, with_method=True, skip_horizon=False):
    from ..gen import build
    build.declare_symbols(b)
    if not skip_horizon:
        build.declare_horizon(b)
    build.declare_model(b)
    for c in b.spec.get("constraints", []):
        build.declare_constraint(b, c)
    build.declare_objective(b)
    build.declare_values(b)
    for g in b.spec.get("stage_guesses", []):
        b.stage.set_initial(build.guess_target(b, g), g["val"])
    if with_method:
        b.stage.method(build.make_method(b.spec["method"]))


def template_snapshot(st):
    import rockit
    return {"states": len(st.states), "controls": len(st.controls), "algebraics": len(st.algebraics),
            "constraints": {k: len(v) for k, v in st._constraints.items() if len(v)},
            "objective": str(st._objective), "T": "free" if isinstance(st._T, rockit.FreeTime) else str(st._T),
            "t0": "free" if isinstance(st._t0, rockit.FreeTime) else str(st._t0), "stages": len(st._stages),
            "params": {k: len(v) for k, v in st.parameters.items() if len(v)},
            "variables": {k: len(v) for k, v in st.variables.items() if len(v)}}


def build_multistage(case):
    """declare the multi-stage OCP of a case; returns (ocp, pv, pp, builts, template, template snapshot, counters)"""
    import casadi as ca
    import rockit
    from ..gen import build
    mode = case["mode"]
    stages = case["stages"]
    res = {"counters": {"clone_templates": 0}}
    ocp = rockit.Ocp()
    pv = ocp.variable()
    pp = ocp.parameter()
    ocp.set_value(pp, case["pp"])
    builts = []
    tmpl = None
    tmpl_snap = None
    late = bool(case.get("late"))

    def finish_parent():
        for c in case["couplings"]:
            a, b_ = builts[c["from"]], builts[c["to"]]
            if c.get("time"):
                ocp.subject_to(a.stage.tf == b_.stage.t0, meta=build.meta_for(c["cid"]))
            else:
                xa = a.syms[c["sa"]]
                xb = b_.syms[c["sb"]]
                xa = xa[0] if xa.numel() > 1 else xa
                xb = xb[0] if xb.numel() > 1 else xb
                rhs = b_.stage.at_t0(xb) + (pv if c["use_pv"] else 0)
                # the coupling may be declared on the parent or on either of the two stages
                holder = {"parent": ocp, "to": b_.stage, "from": a.stage}[c.get("on", "parent")]
                if c.get("on", "parent") == "to":
                    holder.subject_to(rhs == a.stage.at_tf(xa), meta=build.meta_for(c["cid"]))
                else:
                    holder.subject_to(a.stage.at_tf(xa) == rhs, meta=build.meta_for(c["cid"]))
        ocp.add_objective(pp * pv ** 2 + 0.3 * pv)
        ocp.solver("ipopt", {"ipopt.max_iter": 0, "ipopt.print_level": 0, "print_time": False,
                             "ipopt.hessian_approximation": "limited-memory"})

    def before_last(k):
        if late and k == len(stages) - 1:
            finish_parent()
            C.call("transcribe(before the last stage)", lambda: ocp._transcribed)
            res["counters"]["late"] = 1

    if mode == "direct":
        for k, sp in enumerate(stages):
            before_last(k)
            kw = {}
            for key in ("t0", "T"):
                a = build.horizon_arg(sp[key])
                if a is not None:
                    kw[key] = a
            st = C.call("stage()", ocp.stage, **kw)
            b = build.Built(ocp, st, sp)
            C.call("declare(stage)", declare_stage_content, b)
            builts.append(b)
    else:
        sp0 = stages[0]
        base_spec = copy.deepcopy(sp0)
        kw = {}
        # the template carries the first stage's horizon unless that one is an override as well
        tmpl_h = {}
        for key in ("t0", "T"):
            tmpl_h[key] = case["template_h"][key]
            a = build.horizon_arg(tmpl_h[key])
            if a is not None:
                kw[key] = a
        live = bool(case.get("live_template"))
        tmpl = C.call("stage() (live template)", ocp.stage, **kw) if live else rockit.Stage(**kw)
        tb = build.Built(ocp if live else None, tmpl, dict(base_spec, t0=tmpl_h["t0"], T=tmpl_h["T"]))
        C.call("declare(template)", declare_stage_content, tb)
        if case.get("tmpl_inf"):
            # a grid='inf' constraint (with inf_der / inf_inert helper symbols) on the template
            sx = [q for q in base_spec["states"] if q["shape"] == [1, 1] and not q.get("quad")]
            su = [q for q in base_spec["controls"]]
            if sx and su:
                xx = tb.syms[sx[0]["name"]]
                uu = tb.syms[su[0]["name"]]
                uu = uu[0] if uu.numel() > 1 else uu
                if case["tmpl_inf"] == "inf_der":
                    con = tmpl.inf_der(xx) <= 50.0
                elif case["tmpl_inf"] == "inf_inert":
                    con = xx <= tmpl.inf_inert(uu) + 50.0
                else:
                    con = xx <= 50.0
                C.call("subject_to(inf, template)", tmpl.subject_to, con, grid="inf", meta=build.meta_for(8888))
                case["_tmpl_inf_declared"] = True
        if case.get("tmpl_bspline"):
            # a B-spline variable in the template: every clone gets its own signal
            wb = C.call("variable(bspline, template)", tmpl.variable, grid="bspline", order=case["tmpl_bspline"])
            tmpl.add_objective(tmpl.sum(wb ** 2))
            case["_wb"] = wb
        tmpl_snap = template_snapshot(tmpl)
        res["counters"]["clone_templates"] += 1
        for k, sp in enumerate(stages):
            before_last(k)
            kw = {}
            for key in ("t0", "T"):
                if sp[key].get("override"):
                    kw[key] = build.horizon_arg(sp[key])
                else:
                    sp[key] = tmpl_h[key]
            if live and k == 0:
                st = tmpl
                res["counters"]["live_templates"] = 1
            else:
                st = C.call("stage(template)", ocp.stage, tmpl, **kw)
            b = build.Built(ocp, st, sp)
            b.syms.update(tb.syms)
            for p_ in sp["params"]:
                if p_.get("own_value"):
                    C.call("set_value(clone)", st.set_value, b.syms[p_["name"]], build.param_value(p_))
            if sp.get("clone_der_scale"):
                nm_ = sp["clone_der_scale"]
                s_ = [q for q in sp["states"] if q["name"] == nm_][0]
                C.call("set_der(clone, scale)", st.set_der, b.syms[nm_], b.ca_mat(sp["rhs"][nm_]), scale=s_["der_scale"])
            builts.append(b)
    # couplings and parent objective
    if not late:
        finish_parent()
    return ocp, pv, pp, builts, tmpl, tmpl_snap, res["counters"]["clone_templates"]


def run_parent_param(case):
    """a parameter of the Ocp in the horizon and / or a guess of a sub-stage: its value changed on the transcribed OCP gives
    the start point and NLP data of the same OCP declared with the new value from the start"""
    import casadi as ca
    import rockit
    from ..gen import build
    from ..obs import nlp
    res = {"sig": "parent_param|%s|%s|N%dM%d|%s|x%g" % (case["cls"], C.grid_tag(case["grid"]), case["N"], case["M"], case["where"],
                                                        case["factor"]), "evals": 0, "violations": [],
           "counters": {"stage_rows_compared": 0, "parent_param_cases": 1}}
    rng = np.random.default_rng(case["seed"])

    def mk(first, later):
        ocp = rockit.Ocp()
        pp = ocp.parameter()
        in_T = case["where"] in ("T", "both")
        s1 = ocp.stage(t0=0.2, T=(case["factor"] * pp) if in_T else 1.3)
        x = s1.state()
        u = s1.control()
        s1.set_der(x, -0.4 * x + u)
        s1.subject_to(s1.at_t0(x) == 0.1)
        s1.subject_to(-2 <= (u <= 2))
        s1.add_objective(s1.integral(u ** 2) + (s1.at_tf(x) - pp) ** 2)
        if case["where"] in ("guess", "both"):
            s1.set_initial(x, pp * (s1.t + 1))
            s1.set_initial(u, 0.1 * pp)
        g_ = build.make_grid(case["grid"])
        if case["cls"] == "DC":
            s1.method(rockit.DirectCollocation(N=case["N"], M=case["M"], degree=2, grid=g_))
        else:
            s1.method((rockit.MultipleShooting if case["cls"] == "MS" else rockit.SingleShooting)(
                N=case["N"], M=case["M"], intg="rk", grid=g_))
        s2 = ocp.stage(t0=s1.tf, T=1.0)
        y = s2.state()
        s2.set_der(y, -y)
        s2.subject_to(s2.at_t0(y) == s1.at_tf(x))
        s2.add_objective(s2.at_tf(y) ** 2)
        s2.method(rockit.MultipleShooting(N=2, intg="rk"))
        ocp.solver("ipopt", {"ipopt.print_level": 0, "print_time": False, "ipopt.max_iter": 0})
        ocp.set_value(pp, first)
        v = nlp.NlpView(ocp)
        if later is not None:
            ocp.set_value(pp, later)
            opti = v.opti
            v.x0 = np.array(opti.debug.value(v.x, opti.initial())).reshape(-1)
            v.p0 = np.array(opti.debug.value(v.p, opti.initial())).reshape(-1)
        return v

    try:
        va = C.call("declare / transcribe / set_value(parent parameter)", mk, case["pp"][0], case["pp"][1])
        vb = C.call("declare / transcribe (new value from the start)", mk, case["pp"][1], None)
    except C.RockitRaised as e:
        res["violations"].append(C.exc_violation(ID, e, "parent_param|" + case["where"]))
        return res
    res["evals"] += 2
    if (va.nx, va.ng, va.np) != (vb.nx, vb.ng, vb.np):
        res["violations"].append({"kind": "size", "mech": "C12|parent-parameter|nlp-size", "detail": "%s vs %s" % (
            (va.nx, va.ng, va.np), (vb.nx, vb.ng, vb.np))})
        return res
    if va.np and np.max(np.abs(va.p0 - vb.p0)) > 1e-12:
        res["violations"].append({"kind": "parameters", "mech": "C12|parent-parameter|values",
                                  "detail": "parameter vector %s, declared with the new value %s" % (C.short(va.p0), C.short(vb.p0))})
        return res
    if np.max(np.abs(va.x0 - vb.x0)) > 1e-12:
        res["violations"].append({
            "kind": "start", "mech": "C12|parent-parameter|sub-stage-start-point-stale|" + case["where"],
            "detail": "Ocp parameter in the sub-stage's %s changed from %g to %g on the transcribed OCP: start point %s, the "
                      "same OCP declared with %g: %s" % (case["where"], case["pp"][0], case["pp"][1], C.short(va.x0[:8]),
                                                         case["pp"][1], C.short(vb.x0[:8]))})
        return res
    for _ in range(2):
        w = va.random_point(rng)
        ea, eb = va.eval(w, va.p0), vb.eval(w, vb.p0)
        res["evals"] += 1
        res["counters"]["stage_rows_compared"] += va.ng
        if not all(np.allclose(a_, b_, rtol=1e-11, atol=1e-11, equal_nan=True) for a_, b_ in zip(ea, eb)):
            res["violations"].append({"kind": "nlp", "mech": "C12|parent-parameter|nlp-functions", "detail": "f %.12g vs %.12g" % (ea[0], eb[0])})
            return res
    res["nontrivial"] = True
    res["sample"] = {"method": case["cls"], "grid": case["grid"], "where": case["where"], "values": case["pp"]}
    return res


def run_spline_sub(case):
    """SplineMethod as the method of one stage of a multi-stage OCP, next to a shooting stage: the objective is the sum of
    the stage objectives and the coupling row is there."""
    import casadi as ca
    import rockit
    from ..gen import build
    from ..obs import nlp
    res = {"sig": "spline-substage|N%d|%s|N%d" % (case["N1"], case["other"], case["N2"]), "evals": 0, "violations": [],
           "counters": {"stages": 2, "points": 0, "stage_rows_compared": 0, "coupling_rows": 0, "sibling_checks": 0,
                        "clone_templates": 0, "spline_substage": 1}}
    rng = np.random.default_rng(case["seed"])
    try:
        ocp = rockit.Ocp()
        s1 = ocp.stage(t0=0, T=case["T1"])
        x1, v1, a1 = s1.state(), s1.state(), s1.control()
        s1.set_der(x1, v1)
        s1.set_der(v1, a1)
        s1.add_objective(s1.sum(a1 ** 2) + 0.3 * s1.at_tf(x1) ** 2)
        s1.subject_to(s1.at_t0(x1) == case["x0"])
        s1.method(rockit.SplineMethod(N=case["N1"]))
        s2 = ocp.stage(t0=case["T1"], T=case["T2"])
        x2, u2 = s2.state(), s2.control()
        s2.set_der(x2, -0.5 * x2 + u2)
        s2.add_objective(s2.sum(u2 ** 2) + s2.at_tf(x2) ** 2)
        if case["other"] == "MS":
            s2.method(rockit.MultipleShooting(N=case["N2"], intg="rk"))
        else:
            s2.method(rockit.DirectCollocation(N=case["N2"], degree=2))
        ocp.subject_to(s1.at_tf(x1) == s2.at_t0(x2), meta=build.meta_for(901))
        ocp.solver("ipopt", {"ipopt.print_level": 0, "print_time": False})
        view = C.call("transcribe", nlp.NlpView, ocp)
        outs = [C.call("sample(stage)", s1.sample, a1, grid="control")[1], C.call("sample(stage)", s1.sample, x1, grid="control")[1],
                C.call("sample(stage)", s2.sample, u2, grid="control")[1], C.call("sample(stage)", s2.sample, x2, grid="control")[1]]
        F = ca.Function("s", [view.x, view.p], [ca.MX(o_) for o_ in outs])
    except C.RockitRaised as e:
        res["violations"].append(C.exc_violation(ID, e, "spline-substage"))
        return res
    for it in range(3):
        w = view.random_point(rng)
        f, atoms = view.atoms(w)
        A1, X1, U2, X2 = [np.array(v_, dtype=float).reshape(-1) for v_ in F(w, view.p0)]
        fe = float(np.sum(A1[:case["N1"]] ** 2) + 0.3 * X1[-1] ** 2 + np.sum(U2[:case["N2"]] ** 2) + X2[-1] ** 2)
        res["evals"] += 2
        res["counters"]["points"] += 1
        if abs(f - fe) > 1e-9 * (1 + abs(fe)):
            res["violations"].append({"kind": "objective", "mech": "C12|objective-not-sum-of-stages",
                                      "detail": "SplineMethod stage + %s stage: f=%.12g, sum of stage objectives %.12g" % (
                                          case["other"], f, fe)})
            return res
        cpl = [a_[1] for a_ in atoms if a_[2] == 901]
        res["counters"]["coupling_rows"] += len(cpl)
        if len(cpl) != 1 or abs(cpl[0] - abs(X1[-1] - X2[0])) > 1e-9 * (1 + abs(X1[-1]) + abs(X2[0])):
            res["violations"].append({"kind": "coupling", "mech": "C12|coupling-row",
                                      "detail": "coupling x1(tf) == x2(t0): rows %s, |x1(tf)-x2(t0)| = %.9g" % (
                                          C.short(cpl), abs(X1[-1] - X2[0]))})
            return res
    res["nontrivial"] = True
    res["sample"] = {"family": "SplineMethod sub-stage", "other": case["other"], "N": [case["N1"], case["N2"]]}
    return res


def run_case(case):
    import casadi as ca
    import rockit
    if case.get("kind") == "spline_sub":
        return run_spline_sub(case)
    if case.get("kind") == "parent_param":
        return run_parent_param(case)
    from ..gen import build
    from ..obs import nlp, coords
    from ..ref import model
    from . import engine
    mode = case["mode"]
    stages = case["stages"]
    sig = "%s|%s" % (mode, "||".join(C.config_sig(sp).rsplit("|", 1)[0] for sp in stages))
    res = {"sig": sig, "evals": 0, "violations": [],
           "counters": {"stages": 0, "points": 0, "stage_rows_compared": 0, "coupling_rows": 0, "sibling_checks": 0,
                        "clone_templates": 0}}
    rng = np.random.default_rng(case["seed"])
    try:
        ocp, pv, pp, builts, tmpl, tmpl_snap, nt = build_multistage(case)
        res["counters"]["clone_templates"] += nt
        if case.get("late"):
            res["counters"]["stage_added_after_transcription"] = 1
        view = C.call("transcribe", nlp.NlpView, ocp)
        rbs = [C.call("sample(stage)", coords.ReadBack, b, view, engine.want_grids(b.spec), b.stage) for b in builts]
        Fpv = ca.Function("pv", [view.x, view.p], [ocp.value(pv)])
        Fwb = None
        if case.get("_wb") is not None:
            Fwb = ca.Function("wb", [view.x, view.p], [ca.MX(C.call("sample(bspline, clone)", b.stage.sample, case["_wb"],
                                                                      grid="control")[1]) for b in builts])
            res["counters"]["bspline_in_template"] = 1
    except C.RockitRaised as e:
        feat = mode
        if mode == "clone":
            sp0 = stages[0]
            t_in = any(E.uses(e_, "t") for mat in sp0["rhs"].values() for row in mat for e_ in row) or \
                any(E.uses(t_, "t") for t_ in sp0["objective"]) or \
                any(E.uses(n_, "t") for c_ in sp0["constraints"] for fld in ("lhs", "rhs", "lb", "ub") for n_ in (c_.get(fld) or []))
            ph_ = any(E.uses(t_, "integral", "sum", "sum+", "intc", "at_tf", "at_t0") for t_ in sp0["objective"])
            feat = "clone|time=%s|placeholders=%s" % (t_in, ph_)
        res["violations"].append(C.exc_violation(ID, e, feat))
        return res
    if case.get("_tmpl_inf_declared"):
        n8 = int(np.sum(view.row_cid == 8888))
        res["evals"] += 1
        res["counters"]["inf_in_template"] = 1
        if n8 == 0 or n8 % len(builts):
            res["violations"].append({"kind": "clone-inf", "mech": "C12|inf-constraint-of-template-not-in-every-clone",
                                      "detail": "%d rows of the template's grid='inf' constraint for %d clones" % (n8, len(builts))})
            return res
    if tmpl is not None:
        res["evals"] += 1
        now = template_snapshot(tmpl)
        if now != tmpl_snap:
            res["violations"].append({"kind": "template-changed", "mech": "C12|template-altered-by-cloning",
                                      "detail": "template content after cloning / transcription %s, before %s" % (now, tmpl_snap)})
            return res
    nst = len(builts)
    res["counters"]["stages"] = nst
    pattern = C.row_pattern(view)
    stage_cols = []
    for b, rb in zip(builts, rbs):
        stage_cols.append(C.state_columns(view, rb, ("xc:", "uc:", "vc:", "v:", "xi:", "xr:", "zr:", "tc", "T", "t0")))
    base_atoms = None
    for it in range(3):
        w = view.random_point(rng)
        f, atoms = view.atoms(w)
        if not C.finite([a[1] for a in atoms], [f]):
            continue
        phs = [rb(w) for rb in rbs]
        if not all(C.phys_ok(ph_) for ph_ in phs):
            continue
        refs = [model.RefModel(b.spec, ph) for b, ph in zip(builts, phs)]
        if any(r.amplification() > 1e3 for r in refs):
            continue        # a chaotic SingleShooting recursion: round-off differences are amplified alike
        pvv = float(Fpv(w, view.p0))
        scale = 1.0 + max([float(np.max(np.abs(v))) for ph in phs for k, v in ph.items() if isinstance(v, np.ndarray) and v.size])
        res["counters"]["points"] += 1
        # objective
        try:
            fe = sum(r.objective() for r in refs) + case["pp"] * pvv ** 2 + 0.3 * pvv
            if Fwb is not None:
                wv = Fwb(w, view.p0)
                wv = [wv] if not isinstance(wv, (list, tuple)) else wv
                for b_, a_ in zip(builts, wv):
                    fe += float(np.sum(np.array(a_, dtype=float).reshape(-1)[:b_.spec["method"]["N"]] ** 2))
        except Exception:
            continue
        res["evals"] += 1
        if C.finite([fe]) and abs(f - fe) > 1e-9 * (1 + abs(f) + abs(fe)):
            res["violations"].append({"kind": "objective", "mech": "C12|objective-not-sum-of-stages",
                                      "detail": "multi-stage f=%.12g, sum of stage objectives + parent terms=%.12g (stage "
                                                "objectives %s)" % (f, fe, C.short([r.objective() for r in refs]))})
            return res
        # dynamic rows of all stages
        dyn = []
        for r in refs:
            dyn += r.dyn_atoms()
        sys_eq = [(a[0], a[1]) for a in atoms if a[2] == -1 and a[0] == "eq"]
        un_e, _ = nlp.match_multiset(dyn, sys_eq, scale=scale, rtol=1e-9)
        res["evals"] += 1
        res["counters"]["stage_rows_compared"] += len(dyn)
        if un_e:
            res["violations"].append({"kind": "dynamics", "mech": "C12|stage-dynamics-missing-or-wrong",
                                      "detail": "%d of %d reference dynamic residuals of the stages unmatched" % (len(un_e), len(dyn))})
            return res
        # declared constraints: clones share ids -> union over stages with that id
        all_cids = sorted({c["cid"] for b in builts for c in b.spec["constraints"]})
        for cid in all_cids:
            exp = []
            for b, r in zip(builts, refs):
                for c in b.spec["constraints"]:
                    if c["cid"] == cid:
                        exp += r.constraint_atoms(c)[0]
            obs = [(a[0], a[1]) for a in atoms if a[2] == cid]
            if not C.finite([v for _, v in exp]):
                continue
            sc = max([scale] + [abs(v) for _, v in exp])
            ue, uo = nlp.match_multiset(exp, obs, scale=sc, rtol=1e-9)
            res["evals"] += 1
            res["counters"]["stage_rows_compared"] += len(exp)
            if ue or uo:
                res["violations"].append({
                    "kind": "stage-constraint", "mech": "C12|stage-constraint-instances",
                    "detail": "constraint id %d: %d expected slacks unmatched %s, %d NLP slacks unmatched %s" % (
                        cid, len(ue), C.short([exp[i][1] for i in ue][:4]), len(uo), C.short([obs[i][1] for i in uo][:4]))})
                return res
        # couplings
        for c in case["couplings"]:
            a, b_ = c["from"], c["to"]
            if c.get("time"):
                want = abs(phs[a]["t0"] + phs[a]["T"] - phs[b_]["t0"])
            else:
                Na = builts[a].spec["method"]["N"]
                xa = refs[a].node_state(Na)[c["sa"]].reshape(-1)[0]
                xb = refs[b_].node_state(0)[c["sb"]].reshape(-1)[0]
                want = abs(xa - xb - (pvv if c["use_pv"] else 0.0))
            obs = [(a_[0], a_[1]) for a_ in atoms if a_[2] == c["cid"]]
            res["evals"] += 1
            res["counters"]["coupling_rows"] += 1
            if len(obs) != 1 or obs[0][0] != "eq" or abs(obs[0][1] - want) > 1e-9 * (1 + abs(want) + scale):
                res["violations"].append({"kind": "coupling", "mech": "C12|coupling-row",
                                          "detail": "coupling %d: NLP rows %s, expected one equality with residual %.9g" % (
                                              c["cid"], C.short(obs), want)})
                return res
        if it == 0:
            base_w, base_atoms = w.copy(), atoms
    # sibling independence
    if base_atoms is not None:
        _, g0, _, _ = view.eval(base_w)
        for i in range(nst):
            own = stage_cols[i] - set().union(*[stage_cols[j] for j in range(nst) if j != i])
            if not own:
                continue
            w2 = base_w.copy()
            w2[sorted(own)] += rng.standard_normal(len(own))
            _, g1, _, _ = view.eval(w2)
            changed = {r for r in range(view.ng) if not np.isclose(g0[r], g1[r], rtol=1e-12, atol=1e-12)}
            for j in range(nst):
                if j == i:
                    continue
                own_j = stage_cols[j] - set().union(*[stage_cols[q] for q in range(nst) if q != j])
                rows_j = {r for r in range(view.ng) if pattern[r] and pattern[r] <= own_j}
                res["evals"] += 1
                res["counters"]["sibling_checks"] += 1
                if changed & rows_j:
                    res["violations"].append({
                        "kind": "sibling-interference", "mech": "C12|sibling-interference",
                        "detail": "perturbing the variables of stage %d changed rows %s that belong to stage %d only" % (
                            i, sorted(changed & rows_j)[:5], j)})
                    return res
    # guesses given on a stage (or on its template) are where that stage starts
    for k, (b, rb) in enumerate(zip(builts, rbs)):
        gs = b.spec.get("stage_guesses") or []
        if not gs:
            continue
        ph = rb(view.x0, view.p0)
        for g in gs:
            if g["target"] in ("T", "t0"):
                if b.spec[g["target"]]["kind"] != "free" or b.spec[g["target"]].get("override"):
                    continue
                got = np.array([ph[g["target"]]], dtype=float)
            else:
                got = np.asarray(ph["xc:" + g["target"]], dtype=float)
                if b.spec["method"]["cls"] == "SS":
                    got = got[:1]
            res["evals"] += 1
            res["counters"]["stage_guesses"] = res["counters"].get("stage_guesses", 0) + 1
            if not np.allclose(got, g["val"], rtol=1e-12, atol=1e-12):
                res["violations"].append({
                    "kind": "stage-guess", "mech": "C12|stage-guess-not-applied|%s|%s" % (
                        "horizon" if g["target"] in ("T", "t0") else "state", case["mode"]),
                    "detail": "stage %d: guess %g for %s given on the %s, the stage starts at %s" % (
                        k, g["val"], g["target"], "template" if case["mode"] == "clone" else "stage",
                        C.short(got.reshape(-1)[:4]))})
                return res
    # numeric read-back per stage
    if case.get("solve") and all(b.spec["method"].get("intg") in (None, "rk", "expl_euler") for b in builts):
        try:
            try:
                sol = ocp.solve_limited()
            except Exception:
                sol = ocp.non_converged_solution
            ph0 = [rb(view.x0, view.p0) for rb in rbs]
            for b, ph in zip(builts, ph0):
                s0 = b.spec["states"][0]
                _, arr = sol(b.stage).sample(b.syms[s0["name"]], grid="control")
                arr = np.array(arr, dtype=float).reshape(ph["xc:" + s0["name"]].shape[0], -1)
                want = ph["xc:" + s0["name"]].reshape(arr.shape[0], -1)
                res["evals"] += 1
                if np.max(np.abs(arr - want)) > 1e-9 * (1 + np.max(np.abs(want))):
                    res["violations"].append({"kind": "sol-stage", "mech": "C12|sol(stage)-reads-wrong-stage",
                                              "detail": "sol(stage).sample(%s) = %s, start point of that stage %s" % (
                                                  s0["name"], C.short(arr.reshape(-1)[:5]), C.short(want.reshape(-1)[:5]))})
                    return res
        except Exception as e:  # noqa
            # (Opti cannot report values of symbols that appear in no row and not in the objective)
            if "do not appear in the constraints and objective" not in str(e):
                res["violations"].append(C.exc_violation(ID, C.RockitRaised("solve/sol(stage)", e), mode))
                return res
    # a value set on one stage's parameter after the transcription reaches that stage's parameter only
    if not res["violations"]:
        cand = [(k, p_) for k, b in enumerate(builts) for p_ in b.spec["params"] if not p_.get("grid") and p_.get("role") != "horizon"]
        if cand:
            k, p_ = cand[int(rng.integers(0, len(cand)))]
            b = builts[k]
            try:
                w = view.random_point(rng)
                before = [rb(w, view.p0) for rb in rbs]
                pp_before = float(ca.Function("pp", [view.x, view.p], [ocp.value(pp)])(w, view.p0))
                newval = np.array(p_["value"], dtype=float) + 0.37
                C.call("set_value(stage, transcribed)", b.stage.set_value, b.syms[p_["name"]], ca.DM(newval))
                opti = view.opti
                p1 = np.array(opti.debug.value(view.p, opti.initial())).reshape(-1) if view.np else np.zeros(0)
                after = [rb(w, p1) for rb in rbs]
                pp_after = float(ca.Function("pp", [view.x, view.p], [ocp.value(pp)])(w, p1))
                res["evals"] += 1
                res["counters"]["stage_set_value_after_transcription"] = 1
                got = np.asarray(after[k]["p:" + p_["name"]], dtype=float).reshape(newval.shape)
                bad = None
                if np.max(np.abs(got - newval)) > 1e-12:
                    bad = "stage %d parameter %s reads %s after set_value(%s)" % (k, p_["name"], C.short(got), C.short(newval))
                elif abs(pp_after - pp_before) > 1e-12:
                    bad = "the parent's own parameter changed from %g to %g" % (pp_before, pp_after)
                else:
                    for j in range(len(builts)):
                        for key in before[j]:
                            if key[:2] in ("p:", "pc") and not (j == k and key == "p:" + p_["name"]):
                                # clones of one template share parameter *symbols*, not values
                                if np.max(np.abs(np.asarray(before[j][key], dtype=float) -
                                                 np.asarray(after[j][key], dtype=float))) > 1e-12:
                                    bad = "parameter %s of stage %d changed as well" % (key, j)
                if bad:
                    res["violations"].append({"kind": "stage-set-value", "mech": "C12|set_value-on-stage-parameter-after-transcription",
                                              "detail": bad})
                    return res
            except C.RockitRaised as e:
                res["violations"].append(C.exc_violation(ID, e, mode))
                return res
    # an edit made through a sub-stage object after the transcription is honoured by the next transcription
    if not res["violations"]:
        k = int(rng.integers(0, len(builts)))
        b = builts[k]
        xl = b.spec["leaves"]["x"][0]
        try:
            C.call("subject_to(stage, transcribed)", b.stage.subject_to, b.ca(xl) <= 50.0, meta=build.meta_for(7777))
            view2 = C.call("transcribe(after stage edit)", nlp.NlpView, ocp)
            nrows = int(np.sum(view2.row_cid == 7777))
            res["evals"] += 1
            res["counters"]["stage_edit_after_transcription"] = 1
            want = b.spec["method"]["N"] + 1
            if nrows != want:
                res["violations"].append({
                    "kind": "stage-edit-ignored", "mech": "C12|edit-through-stage-after-transcription",
                    "detail": "stage %d: subject_to(x <= 50) declared through the stage object after the transcription; the next "
                              "transcription has %d instances of it, expected %d" % (k, nrows, want)})
                return res
        except C.RockitRaised as e:
            res["violations"].append(C.exc_violation(ID, e, mode))
            return res
    # the template can be cloned again
    if tmpl is not None and case.get("live_template"):
        # (the live template is a stage of the OCP: the deliberate edit above may have been declared on it)
        tmpl_snap = template_snapshot(tmpl)
    if tmpl is not None:
        try:
            ocp2 = rockit.Ocp()
            ocp2.stage(tmpl)
            res["evals"] += 1
            if template_snapshot(tmpl) != tmpl_snap:
                res["violations"].append({"kind": "template-changed", "mech": "C12|template-altered-by-cloning",
                                          "detail": "template changed by a later clone"})
        except Exception as e:  # noqa
            res["violations"].append(C.exc_violation(ID, C.RockitRaised("clone again", e), "clone"))
    res["nontrivial"] = res["counters"]["stage_rows_compared"] > 0
    res["sample"] = {"mode": mode, "stages": [C.spec_digest(sp) for sp in stages][:2], "couplings": case["couplings"]}
    return res
