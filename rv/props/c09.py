"""C09 -- a parametric OCP is the family of OCPs with the values written in."""
import copy

import numpy as np

from ..gen import ocpgen, expr as E
from . import common as C

ID = "C09"
LEVEL = "exploration"
RULE = ("Random OCP specifications with global scalar/vector/matrix parameters, per-interval parameters with and "
        "without include_last, horizon parameters (set_T / set_t0), parametric bounds and parameters inside dynamics, "
        "objective and constraints x every method.  (reference monitor) objective, dynamic rows and every declared "
        "constraint of the NLP evaluated at the parameter vector rockit assigned must equal the reference model "
        "evaluated with the user's values (column k on interval k, extra include_last column at the final node, matrix "
        "layout element-wise).  (differential monitor) the same OCP with the global and horizon parameters written as "
        "constants must have the same objective and the same multiset of row slacks at the same decision vector and the "
        "same start point.  (history monitor) a random sequence of set_value events before the first transcription, "
        "after it and after a solve is mirrored in a shadow table; after every event the parameter values read back "
        "(ocp.value / ocp.sample / sol.sample) and the NLP must correspond to the shadow, i.e. the event replaced that "
        "parameter's value only.  non-trivial = at least one comparison with a parameter appearing in the NLP; "
        "distinct = configuration signature x event pattern.")
ASSUMPTIONS = ["reference NLP model (rv.ref.model)", "Opti parameter values read through opti.debug.value",
               "solves use ipopt max_iter=0 (only the data handed to the solver matter)"]
ANCHORS = ["stage:Stage.set_value", "sampling_method:SamplingMethod.set_parameter", "sampling_method:SamplingMethod.set_value",
           "sampling_method:SamplingMethod.get_p_control_at"]
CASE_LIMIT = {"quick": 120, "thorough": 300}

PROFILE = {"methods": ["MS", "SS", "DC"], "alg": 0.3,
           "grids": ["uniform", "uniform", "geometric", "function", "free", "uniform_loc", "geometric_loc"],
           "t0_kinds": ["num", "param", "free"], "T_kinds": ["num", "param", "param", "free"],
           "N": [1, 2, 3, 4], "M": [1, 2, 3], "quad_states": 0.0}


def rand_value(rng, p, N):
    n, m = p["shape"]
    ncol = m
    if p.get("grid"):
        ncol = m * (N + (1 if p.get("include_last") else 0))
    if p.get("role") == "horizon":
        return [[ocpgen.rnd(rng, 0.3, 3.0, 3)]] if p["name"] == "p_T" else [[ocpgen.rnd(rng, -2, 2, 3)]]
    return [[ocpgen.rnd(rng, -1.5, 1.5) for _ in range(ncol)] for _ in range(n)]


def concat_event(rng, spec, N):
    """set_value on a simple concatenation of two global parameters (vertcat of columns / horzcat of equal heights)"""
    glob = [p for p in spec["params"] if not p.get("grid")]
    pairs = [(a, b, "v") for a in glob for b in glob if a is not b and a["shape"][1] == 1 and b["shape"][1] == 1]
    pairs += [(a, b, "h") for a in glob for b in glob if a is not b and a["shape"][0] == b["shape"][0]]
    if not pairs:
        return None
    a, b, cat = rng.choice(pairs)
    return {"names": [a["name"], b["name"]], "cat": cat, "values": [rand_value(rng, a, N), rand_value(rng, b, N)]}


def do_set_value(b, e):
    """perform the set_value event `e` (single parameter or concatenation) on the real stage"""
    import casadi as ca
    from ..gen import build
    if "names" in e:
        cat = ca.vertcat if e["cat"] == "v" else ca.horzcat
        sym = cat(*[b.syms[n] for n in e["names"]])
        val = cat(*[build.param_value({"value": v}) for v in e["values"]])
        return b.stage.set_value(sym, val)
    if e.get("inplace"):
        # the caller's own buffer, refreshed in place and handed over again (the same object every time)
        val = np.array(e["value"], dtype=float)
        bufs = b.__dict__.setdefault("_value_buffers", {})
        buf = bufs.get(e["name"])
        if buf is None or buf.shape != val.shape:
            buf = bufs[e["name"]] = np.zeros(val.shape)
        buf[...] = val
        return b.stage.set_value(b.syms[e["name"]], buf)
    return b.stage.set_value(b.syms[e["name"]], build.param_value({"value": e["value"]}))


def shadow_update(shadow, e):
    if "names" in e:
        for n, v in zip(e["names"], e["values"]):
            shadow[n] = v
    else:
        shadow[e["name"]] = e["value"]


def gen_cases(rng, tier):
    n = 150 if tier == "quick" else 2500
    cases = []
    for i in range(n):
        spec = None
        while spec is None or not [p for p in spec["params"]]:
            spec = ocpgen.gen_stage(rng, PROFILE)
        N = spec["method"]["N"]
        if spec["T"]["kind"] == "param" and rng.random() < 0.35:
            # the horizon is an expression of the parameter (set_T(c*p)), not the bare symbol
            spec["T"]["factor"] = rng.choice([2.0, 0.5, 1.5])
        ncon = rng.randint(1, 3)
        spec["constraints"] = [ocpgen.gen_constraint(rng, spec, cid + 1, grids=["control", "integrator"],
                                                     allow_offsets=False) for cid in range(ncon)]
        spec["objective"] = ocpgen.gen_objective(rng, spec, rng.randint(1, 2))
        pint = [p for p in spec["params"] if p.get("grid") == "control"]
        if pint and spec.get("use_next_prev", True) is not None and rng.random() < 0.5:
            # a per-interval parameter inside a shifted operand: next(p) on interval k is column k+1
            # (with include_last the final node's own column)
            p = rng.choice(pint)
            pl = rng.choice(ocpgen.elems(p["name"], p["shape"]))
            xl = rng.choice(spec["leaves"]["x"])
            spec["constraints"].append({
                "cid": 50, "form": rng.choice(["le", "ge"]), "grid": "control",
                "lhs": [["-", ["off", ["+", pl, ["*", ["c", ocpgen.rnd(rng, 0.5, 1.5)], xl]], 1], rng.choice(spec["leaves"]["x"])]],
                "rhs": [["c", ocpgen.rnd(rng, -1, 1)]]})
        events = []
        nev = rng.randint(2, 5) if tier == "quick" else rng.randint(3, 6)
        for _ in range(nev):
            p = rng.choice(spec["params"])
            ce = concat_event(rng, spec, N) if rng.random() < 0.2 else None
            if ce:
                events.append(dict(ce, phase=rng.choice(["pre", "post", "post", "post_solve"])))
                continue
            val = rand_value(rng, p, N)
            prev = [e_["value"] for e_ in events if e_.get("name") == p["name"] and "value" in e_ and not e_.get("op")] + [p["value"]]
            if rng.random() < 0.3:
                val = rng.choice(prev)           # back to a value the parameter had before (v1 -> v2 -> v1)
            events.append({"phase": rng.choice(["pre", "post", "post", "post_solve"]), "name": p["name"],
                           "value": val, "inplace": rng.random() < 0.35})
        # interleave guess updates: they must not disturb any parameter value
        dec = list(spec["controls"]) or [s for s in spec["states"] if not s.get("quad") and
                                         spec["method"]["cls"] != "DC"]   # DC state guesses are C10's subject
        for _ in range(rng.randint(0, 2) if dec else 0):
            tgt = rng.choice(dec)
            events.insert(rng.randint(0, len(events)), {"phase": rng.choice(["post", "post_solve"]), "op": "set_initial",
                                                        "name": tgt["name"], "value": ocpgen.rnd(rng, -2, 2)})
        order = {"pre": 0, "post": 1, "post_solve": 2}
        events.sort(key=lambda e: order[e["phase"]])
        events.sort(key=lambda e: order[e["phase"]])
        solve = any(e["phase"] == "post_solve" for e in events) and spec["method"].get("intg") in (None, "rk", "expl_euler")
        if not solve:
            for e in events:
                if e["phase"] == "post_solve":
                    e["phase"] = "post"
        spec["solver_options"] = {"ipopt.max_iter": 0, "ipopt.print_level": 0, "print_time": False,
                                  "ipopt.hessian_approximation": "limited-memory"}
        cases.append({"spec": spec, "events": events, "solve": bool(solve), "K": 3 if tier == "quick" else 5,
                      "seed": rng.getrandbits(32)})
    return cases


def classify(case, v):
    return v.get("mech")


def subst_consts(node, vals):
    op = node[0]
    if op == "s":
        if node[1] in vals:
            return ["c", float(vals[node[1]][node[2]][node[3]])]
        return node
    if op in E.UNARY or op in E.PLACEHOLDERS or op == "der":
        return [op, subst_consts(node[1], vals)]
    if op == "off":
        return [op, subst_consts(node[1], vals), node[2]]
    if op in E.BINARY:
        return [op, subst_consts(node[1], vals), subst_consts(node[2], vals)]
    return node


def constant_version(spec, shadow):
    """the same OCP with global (and horizon) parameters written as numbers"""
    sp = copy.deepcopy(spec)
    glob = {p["name"]: shadow[p["name"]] for p in sp["params"] if not p.get("grid")}
    sp["params"] = [p for p in sp["params"] if p.get("grid")]
    for p in sp["params"]:
        p["value"] = shadow[p["name"]]
    for key in ("t0", "T"):
        if sp[key]["kind"] == "param":
            sp[key] = {"kind": "num", "val": float(sp[key].get("factor", 1.0)) * float(glob[sp[key]["name"]][0][0])}
    for nm, mat in sp["rhs"].items():
        sp["rhs"][nm] = [[subst_consts(e, glob) for e in row] for row in mat]
    for a in sp.get("alg", []):
        a["expr"] = subst_consts(a["expr"], glob)
    sp["objective"] = [subst_consts(t, glob) for t in sp["objective"]]
    for c in sp["constraints"]:
        for fld in ("lhs", "rhs", "lb", "ub"):
            if c.get(fld):
                c[fld] = [subst_consts(e, glob) for e in c[fld]]
    sp["leaves"] = dict(sp["leaves"])
    return sp


def check_readback(obs, shadow, res, where):
    """parameter values read back through the public API equal the shadow"""
    spec = obs.spec
    ph = obs.rb(obs.view.x0, obs.view.p0)
    N = spec["method"]["N"]
    for p in spec["params"]:
        want = np.array(shadow[p["name"]], dtype=float)
        n, m = p["shape"]
        if not p.get("grid"):
            got = ph["p:" + p["name"]].reshape(n, m)
            ok = np.allclose(got, want.reshape(n, m), rtol=0, atol=1e-12)
        else:
            got = ph["pc:" + p["name"]]           # (N+1, n, m): control grid incl. final node
            nblk = N + (1 if p.get("include_last") else 0)
            w = want.reshape(n, m * nblk)
            ok = True
            for k in range(N + 1):
                kk = k if p.get("include_last") else min(k, N - 1)
                ok = ok and np.allclose(got[k], w[:, kk * m:(kk + 1) * m], rtol=0, atol=1e-12)
        res["evals"] += 1
        res["counters"]["param_readbacks"] += 1
        if not ok:
            res["violations"].append({
                "kind": "parameter-value", "mech": "C09|parameter-value-not-in-effect|" + where.split(":")[0],
                "detail": "%s: parameter %s (grid=%r, include_last=%s) reads back %s, the user assigned %s" % (
                    where, p["name"], p.get("grid"), p.get("include_last", False), C.short(got), C.short(want))})
            return False
    return True


def run_case(case):
    from ..gen import build
    from . import engine
    spec = case["spec"]
    events = case["events"]
    pattern = "".join(({"pre": "b", "post": "a", "post_solve": "s"}[e["phase"]]).upper() if e.get("op") else
                      {"pre": "b", "post": "a", "post_solve": "s"}[e["phase"]] for e in events)
    sig = C.config_sig(spec, pattern)
    res = {"sig": sig, "evals": 0, "violations": [],
           "counters": {"param_readbacks": 0, "nlp_compares": 0, "events": 0, "const_twin_compares": 0, "solves": 0}}
    shadow = {p["name"]: p["value"] for p in spec["params"]}
    rng = np.random.default_rng(case["seed"])
    try:
        b = C.call("declare", build.build_ocp, spec)
        for e in [e for e in events if e["phase"] == "pre"]:
            C.call("set_value(pre)", do_set_value, b, e)
            shadow_update(shadow, e)
            res["counters"]["events"] += 1
        obs = engine.Observed(spec, b)
    except C.RockitRaised as e:
        res["violations"].append(C.exc_violation(ID, e, "|".join(sig.split("|")[:2])))
        return res

    def compare(where, K):
        if not check_readback(obs, shadow, res, where):
            return False
        for _ in range(K):
            w = obs.view.random_point(rng)
            n, viol, info = engine.full_compare(spec, obs.view, obs.rb, w, obs.view.p0, pvals=shadow, tag=where + ": ")
            res["evals"] += n
            res["counters"]["nlp_compares"] += 1
            for v in viol:
                v["mech"] = "C09|%s|%s" % (v["mech"], where.split(":")[0])
                res["violations"].append(v)
            if viol:
                return False
        return True

    if not compare("after first transcription", case["K"]):
        return res
    # differential: constants written in
    try:
        twin_spec = constant_version(spec, shadow)
        twin = engine.Observed(twin_spec)
        same_layout = twin.view.nx == obs.view.nx
        for _ in range(2):
            w = obs.view.random_point(rng)
            fa, atoms_a = obs.view.atoms(w)
            fb, atoms_b = twin.view.atoms(w) if same_layout else (None, None)
            if not same_layout:
                break
            from ..obs import nlp
            A = [(a[0], a[1]) for a in atoms_a]
            B = [(a[0], a[1]) for a in atoms_b]
            if not C.finite([v for _, v in A], [v for _, v in B], [fa, fb]):
                continue
            rt = 1e-9
            if spec["method"]["cls"] == "SS":
                # two differently rounded evaluations of one recursion: tolerance follows its sensitivity
                from ..ref import model
                ph_ = obs.rb(w)
                if not C.phys_ok(ph_):
                    continue
                amp = model.RefModel(spec, ph_, None).amplification()
                if amp > 1e5:
                    res["counters"]["chaotic_points"] = res["counters"].get("chaotic_points", 0) + 1
                    continue
                rt = max(1e-9, 1e-13 * amp)
            un_a, un_b = nlp.match_multiset(A, B, scale=1.0 + max([abs(v) for _, v in A] + [0]), rtol=rt)
            res["evals"] += 1
            res["counters"]["const_twin_compares"] += 1
            if un_a or un_b or abs(fa - fb) > rt * (1 + abs(fa)):
                res["violations"].append({
                    "kind": "differs-from-constant-twin", "mech": "C09|differs-from-constant-twin",
                    "detail": "f %.12g vs %.12g; %d row slacks of the parametric NLP and %d of the constant NLP "
                              "unmatched" % (fa, fb, len(un_a), len(un_b))})
                return res
        if same_layout:
            res["evals"] += 1
            if np.max(np.abs(obs.view.x0 - twin.view.x0)) > 1e-12 if obs.view.nx else False:
                res["violations"].append({"kind": "start-point-differs", "mech": "C09|start-point-differs-from-twin",
                                          "detail": "start points differ by %.3g" % np.max(np.abs(obs.view.x0 - twin.view.x0))})
                return res
    except C.RockitRaised as e:
        res["violations"].append(C.exc_violation(ID, e, "constant-twin"))
        return res
    # history
    solved = False
    sol = None
    for e in [e for e in events if e["phase"] != "pre"]:
        if e["phase"] == "post_solve" and not solved:
            try:
                try:
                    sol = b.ocp.solve_limited()
                except Exception:
                    sol = b.ocp.non_converged_solution
                solved = True
                res["counters"]["solves"] += 1
            except Exception as ex:  # noqa
                res["violations"].append(C.exc_violation(ID, C.RockitRaised("solve_limited", ex), "history"))
                return res
        try:
            if e.get("op") == "set_initial":
                C.call("set_initial(%s)" % e["phase"], b.stage.set_initial, b.syms[e["name"]], e["value"])
            else:
                C.call("set_value(%s)" % e["phase"], do_set_value, b, e)
        except C.RockitRaised as ex:
            res["violations"].append(C.exc_violation(ID, ex, "history"))
            return res
        if e.get("op") == "set_initial":
            res["counters"]["events"] += 1
            obs.refresh()
            if not compare("after set_initial following set_value events", 1):
                return res
            continue
        shadow_update(shadow, e)
        res["counters"]["events"] += 1
        if "names" in e:
            res["counters"]["concat_events"] = res["counters"].get("concat_events", 0) + 1
        obs.refresh()
        if not compare("after set_value %s" % ("after a solve" if e["phase"] == "post_solve" else "on the transcribed "
                                                                                                  "problem"), 1):
            return res
    post = [e for e in events if e["phase"] != "pre"]
    if post and not any(e.get("op") == "set_initial" for e in post):
        # values changed afterwards: the start point is the one of the OCP with the final values written in
        try:
            twin2 = engine.Observed(constant_version(spec, shadow))
            obs.refresh()
            if twin2.view.nx == obs.view.nx and obs.view.nx:
                res["evals"] += 1
                res["counters"]["const_twin_start_after_updates"] = 1
                d = float(np.max(np.abs(obs.view.x0 - twin2.view.x0)))
                if d > 1e-12:
                    res["violations"].append({
                        "kind": "start-point-differs", "mech": "C09|start-point-differs-from-twin|after-updates",
                        "detail": "after set_value on the transcribed problem the start point differs by %.3g from the "
                                  "one of the OCP with the final values written in" % d})
                    return res
        except C.RockitRaised as e:
            res["violations"].append(C.exc_violation(ID, e, "constant-twin-after-updates"))
            return res
    if solved:
        # the next solve sees the shadow values
        try:
            try:
                sol = b.ocp.solve_limited()
            except Exception:
                sol = b.ocp.non_converged_solution
            for p in spec["params"]:
                if p.get("grid"):
                    _, arr = sol.sample(b.syms[p["name"]], grid="control")
                    arr = np.array(arr, dtype=float)
                    n, m = p["shape"]
                    N = spec["method"]["N"]
                    nblk = N + (1 if p.get("include_last") else 0)
                    want = np.array(shadow[p["name"]], dtype=float).reshape(n, m * nblk)
                    arr = arr.reshape(N + 1, n, m)
                    ok = all(np.allclose(arr[k], want[:, (k if p.get("include_last") else min(k, N - 1)) * m:
                                                      ((k if p.get("include_last") else min(k, N - 1)) + 1) * m],
                                         atol=1e-12) for k in range(N + 1))
                    res["evals"] += 1
                    if not ok:
                        res["violations"].append({
                            "kind": "sol-sample-parameter", "mech": "C09|sol.sample-of-parameter",
                            "detail": "sol.sample(%s) = %s, assigned %s" % (p["name"], C.short(arr), C.short(want))})
        except Exception as ex:  # noqa
            # Opti cannot report values of symbols that appear in no row and not in the objective (an unused
            # include_last column of a generated problem): nothing to compare then
            if "do not appear in the constraints and objective" not in str(ex):
                res["violations"].append(C.exc_violation(ID, C.RockitRaised("second solve", ex), "history"))
    res["nontrivial"] = res["counters"]["nlp_compares"] > 0
    res["sample"] = {"spec": C.spec_digest(spec), "events": [(e["phase"], e.get("name") or "+".join(e["names"])) for e in events],
                     "final_values": {k: C.short(v) for k, v in list(shadow.items())[:3]}}
    return res
