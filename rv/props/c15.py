"""C15 -- grid='inf' constraints guarantee satisfaction between grid points."""
import numpy as np

from ..gen import ocpgen, expr as E
from . import common as C

ID = "C15"
LEVEL = "exploration"
RULE = ("Random ODE specifications with 1-3 scalar states and a grid='inf' constraint on a random polynomial expression "
        "(degree 1-2: sums, products, squares of states, optional inf_der(state) and inf_inert(control) terms, one-sided "
        "<= / >=) x {SingleShooting rk, MultipleShooting rk, DirectCollocation degree 4} x N 1..4, M 1..4 x uniform / "
        "geometric / function / free grids x fixed / free horizon.  At 8-30 dynamically feasible decision vectors the rows "
        "attributed (via meta=) to the constraint are evaluated and the constrained expression is evaluated along the "
        "integration scheme's own polynomial trajectory (per-step polynomial recovered from refine=7 samples, its "
        "derivative for inf_der terms, 25 evaluation points per step).  Soundness oracle: the smallest row slack must "
        "not exceed the smallest slack along the trajectory; otherwise shifting the bound produces an NLP point that "
        "satisfies the rows while the trajectory violates the constraint.  Tightness (reported, lenient): the gap at M=4 "
        "is at most the gap at M=1.  Unsupported settings (expl_euler, collocation degree != 4, non-polynomial "
        "expressions) must raise or still satisfy the oracle.  non-trivial = oracle evaluated with at least one row; "
        "distinct = configuration signature x expression kind.")
ASSUMPTIONS = ["the trajectory-side minimum is taken over 25 samples per step: min over samples >= true minimum, so a "
               "reported gap is always a true counter-example (no false alarm); narrow violations may be missed",
               "feasible points as in C08"]
ANCHORS = ["sampling_method:SamplingMethod.add_inf_constraints", "casadi_helpers:reinterpret_expr"]
CASE_LIMIT = {"quick": 200, "thorough": 400}

PROFILE = {"methods": ["SS", "MS", "DC"], "intgs": ["rk"], "alg": 0.0, "degrees": [4],
           "grids": ["uniform", "uniform", "geometric", "function", "free"], "t0_kinds": ["num", "free"],
           "T_kinds": ["num", "free"], "N": [1, 2, 3, 4], "M": [1, 2, 3, 4], "allow_matrix": False, "quad_states": 0.0,
           "max_states": 3, "per_interval": False}


def poly_expr(rng, xs, us):
    """polynomial of degree <= 2 in the scalar states (+ optional inf_der / inert terms)"""
    terms = []
    kinds = []
    for _ in range(rng.randint(1, 3)):
        r = rng.random()
        a = E.rand_const(rng)
        if r < 0.4:
            terms.append(["*", a, rng.choice(xs)])
            kinds.append("lin")
        elif r < 0.6:
            terms.append(["*", a, ["sq", rng.choice(xs)]])
            kinds.append("sq")
        elif r < 0.8:
            terms.append(["*", a, ["*", rng.choice(xs), rng.choice(xs)]])
            kinds.append("prod")
        elif r < 0.86:
            terms.append(["*", a, ["infder", rng.choice(xs)]])
            kinds.append("der")
        elif r < 0.9:
            # state times derivative, in either operand order (both orders may occur in one expression / process)
            xa, xb = rng.choice(xs), rng.choice(xs)
            terms.append(["*", xa, ["infder", xb]] if rng.random() < 0.5 else ["*", ["infder", xb], xa])
            kinds.append("xder")
        elif us:
            terms.append(["*", ["inert", rng.choice(us)], rng.choice(xs)])
            kinds.append("inert")
        else:
            terms.append(["*", a, rng.choice(xs)])
            kinds.append("lin")
    # identical terms would cancel symbolically (a - a): keep the first occurrence only
    terms = [t for i, t in enumerate(terms) if t not in terms[:i]]
    e = terms[0]
    for t in terms[1:]:
        e = ["+", e, t] if rng.random() < 0.7 else ["-", e, t]
    r = rng.random()
    if r < 0.2:
        e = ["-", E.rand_const(rng), e]          # constant on the left of the minus
        kinds.append("cminus")
    elif r < 0.3 and us:
        e = ["-", ["inert", rng.choice(us)], e]   # state-independent operand on the left of the minus
        kinds.append("iminus")
    elif r < 0.4:
        e = ["+", E.rand_const(rng), e]
        kinds.append("cplus")
    return e, "+".join(sorted(set(kinds)))


def gen_cases(rng, tier):
    n = 70 if tier == "quick" else 1200
    cases = []
    while len(cases) < n:
        spec = ocpgen.gen_stage(rng, PROFILE)
        if any(s["shape"] != [1, 1] for s in spec["states"]):
            for s in spec["states"]:
                s["shape"] = [1, 1]
            # regenerate right-hand sides for scalar states
            lv = [E.sym(s["name"]) for s in spec["states"]]
            lu = spec["leaves"]["u"]
            for s in spec["states"]:
                spec["rhs"][s["name"]] = [[E.rand_expr_covering(rng, [rng.choice(lv)] + lu[:1], lv + [["t"]], 2)]]
            spec["leaves"]["x"] = lv
        xs = [E.sym(s["name"]) for s in spec["states"]]
        if rng.random() < 0.4:
            # an unconstrained vector-valued state declared before the scalar ones (the polynomial stays in scalar states)
            nv = rng.choice([2, 3])
            spec["states"].insert(0, {"name": "xv", "shape": [nv, 1]})
            rows = [[["-", ["*", ["c", -0.5], E.sym("xv", i, 0)], E.sym("xv", (i + 1) % nv, 0)]] for i in range(nv)]
            rows[0] = [["+", rows[0][0], rng.choice(xs)]]
            spec["rhs"]["xv"] = rows
            spec["leaves"]["x"] = [E.sym("xv", i, 0) for i in range(nv)] + spec["leaves"]["x"]
        us = [e for e in spec["leaves"]["u"]]
        e, kinds = poly_expr(rng, xs, us)
        form = rng.choice(["le", "ge"])
        kind = "normal"
        r = rng.random()
        if r < 0.06:
            kind = "non-polynomial"
            e = ["+", e, ["sin", rng.choice(xs)]]
        elif r < 0.10:
            kind = "euler"
            spec["method"]["intg"] = "expl_euler"
            if spec["method"]["cls"] == "DC":
                spec["method"]["cls"] = "MS"
        elif r < 0.14:
            kind = "dc-degree"
            spec["method"] = dict(spec["method"], cls="DC", degree=rng.choice([2, 3, 5]), scheme="radau")
        spec["objective"] = [["at_tf", ["sq", xs[0]]]]
        rhs_expr = None
        if kind == "normal" and rng.random() < 0.25:
            # polynomials on both sides of the comparison (the right one of lower degree)
            rhs_expr = ["*", E.rand_const(rng), rng.choice(xs)]
            if rng.random() < 0.5:
                e = ["+", e, ["*", E.rand_const(rng), ["sq", rng.choice(xs)]]]
            kinds = kinds + "+rhs"
        if kind == "normal" and rhs_expr is None and rng.random() < 0.06:
            kind = "bspline-signal"        # a B-spline parameter directly in the constraint: no guarantee exists
        if rhs_expr is not None:
            cases.append({"spec": spec, "expr": e, "rhs_expr": rhs_expr, "form": form, "bound": ocpgen.rnd(rng, -1, 1),
                          "kinds": kinds, "kind": kind, "K": 8 if tier == "quick" else 30, "seed": rng.getrandbits(32)})
            continue
        if len(cases) % 9 == 4 and kind == "normal":
            # state times derivative in both operand orders inside one expression, many points
            xa, xb = xs[0], xs[-1]
            e = ["+", ["-", ["*", xa, ["infder", xb]], ["*", ["infder", xa], xb]], E.rand_const(rng)]
            kinds = "xder-both"
            cases.append({"spec": spec, "expr": e, "form": form, "bound": ocpgen.rnd(rng, -1, 1), "kinds": kinds, "kind": kind,
                          "K": 40 if tier == "quick" else 80, "seed": rng.getrandbits(32)})
            continue
        extra = {}
        if kind == "normal":
            r2 = rng.random()
            if r2 < 0.2 and spec["T"]["kind"] == "num":
                # the rows must follow a new numeric horizon given after a first transcription (same method object)
                extra["retrans"] = round(spec["T"]["val"] * rng.choice([0.4, 2.5, 3.0]), 3)
                kinds = kinds + "+retrans"
            elif r2 < 0.4 and any(k_ in kinds for k_ in ("der", "xder", "inert", "iminus")):
                # a further state is declared after the constraint with its inf_der / inf_inert helper symbols
                extra["late_state"] = True
                spec["method"] = dict(spec["method"], cls="SS")
                spec["method"].pop("degree", None)
                spec["method"].pop("scheme", None)
                spec["method"]["intg"] = "rk"
                kinds = kinds + "+latestate"
        cases.append(dict({"spec": spec, "expr": e, "form": form, "bound": ocpgen.rnd(rng, -1, 1), "kinds": kinds, "kind": kind,
                           "K": 8 if tier == "quick" else 30, "seed": rng.getrandbits(32)}, **extra))
    return cases


def classify(case, v):
    return v.get("mech")


def to_ca_inf(node, b):
    """CasADi expression with ocp.inf_der / ocp.inf_inert for the special leaves"""
    import casadi as ca
    op = node[0]
    if op == "infder":
        return b.stage.inf_der(b.ca(node[1]))
    if op == "inert":
        return b.stage.inf_inert(b.ca(node[1]))
    if op in ("+", "-", "*"):
        l, r = to_ca_inf(node[1], b), to_ca_inf(node[2], b)
        return l + r if op == "+" else (l - r if op == "-" else l * r)
    if op == "sq":
        return to_ca_inf(node[1], b) ** 2
    if op == "neg":
        return -to_ca_inf(node[1], b)
    if op == "sin":
        return ca.sin(to_ca_inf(node[1], b))
    return b.ca(node)


def ev_inf(node, x, xdot, u):
    op = node[0]
    if op == "infder":
        return xdot[node[1][1]]
    if op == "inert":
        return u[node[1][1]][node[1][2]]
    if op == "c":
        return node[1]
    if op == "s":
        return x[node[1]]
    if op == "+":
        return ev_inf(node[1], x, xdot, u) + ev_inf(node[2], x, xdot, u)
    if op == "-":
        return ev_inf(node[1], x, xdot, u) - ev_inf(node[2], x, xdot, u)
    if op == "*":
        return ev_inf(node[1], x, xdot, u) * ev_inf(node[2], x, xdot, u)
    if op == "sq":
        return ev_inf(node[1], x, xdot, u) ** 2
    if op == "neg":
        return -ev_inf(node[1], x, xdot, u)
    if op == "sin":
        return np.sin(ev_inf(node[1], x, xdot, u))
    raise ValueError(op)


def run_case(case):
    import casadi as ca
    from ..gen import build
    from . import engine, c08
    spec = case["spec"]
    m = spec["method"]
    cls, N, M = m["cls"], m["N"], m["M"]
    sig = C.config_sig(spec, "%s|%s|%s" % (case["kinds"], case["form"], case["kind"]))
    res = {"sig": sig, "evals": 0, "violations": [],
           "counters": {"oracle_points": 0, "rows": 0, "rejected": 0, "max_gap": 0.0}}
    rng = np.random.default_rng(case["seed"])
    try:
        b = C.call("declare", build.build_ocp, spec)
        e_mx = to_ca_inf(case["expr"], b)
        rhs_mx = case["bound"]
        if case.get("rhs_expr") is not None:
            rhs_mx = to_ca_inf(case["rhs_expr"], b) + case["bound"]
        psig = None
        if case["kind"] == "bspline-signal":
            psig = b.stage.parameter(grid="bspline", order=2)
            b.stage.set_value(psig, ca.DM(rng.standard_normal((1, N + 2))))
            rhs_mx = psig + case["bound"]
        con = (e_mx <= rhs_mx) if case["form"] == "le" else (e_mx >= rhs_mx)
        b.stage.subject_to(con, grid="inf", meta=build.meta_for(77))
        if case.get("late_state"):
            xl = b.stage.state()
            b.stage.set_der(xl, -0.5 * xl + b.syms[spec["states"][-1]["name"]])
            res["counters"]["state_declared_after_constraint"] = 1
        if case.get("retrans"):
            C.call("transcribe(first horizon)", lambda: b.ocp._transcribed)
            C.call("set_T(transcribed)", b.ocp.set_T, case["retrans"])
            import copy as _copy
            spec = _copy.deepcopy(spec)
            spec["T"] = {"kind": "num", "val": case["retrans"]}
            b.spec = spec
            res["counters"]["retranscribed_with_new_horizon"] = 1
        obs = engine.Observed(spec, b)
    except C.RockitRaised as e:
        if case["kind"] != "normal":
            res["evals"] += 1
            res["counters"]["rejected"] += 1
            res["nontrivial"] = True
            res["sample"] = {"kind": case["kind"], "rejected_with": repr(e.exc)[:160]}
            return res
        res["violations"].append(C.exc_violation(ID, e, "%s|%s" % (cls, case["kinds"])))
        return res
    view = obs.view
    rows = [r for r in range(view.ng) if view.row_cid[r] == 77]
    if not rows:
        res["violations"].append({"kind": "no-rows", "mech": "C15|inf-constraint-produced-no-rows|" + case["kind"],
                                  "detail": "the grid='inf' constraint produced no NLP row and no exception"})
        return res
    res["counters"]["rows"] = len(rows)
    snames = [s["name"] for s in spec["states"]]
    st = b.stage
    outs = []
    for n in snames:
        tt, vv = st.sample(b.syms[n], grid="integrator", refine=7)
        outs += [ca.MX(tt), ca.MX(vv)]
    if psig is not None:
        outs.append(ca.MX(st.sample(psig, grid="integrator", refine=7)[1]))
    F = ca.Function("s", [view.x, view.p], outs)
    for it in range(case["K"]):
        try:
            w, how = c08.feasible_point(spec, obs, rng)
        except C.RockitRaised as e:
            res["violations"].append(C.exc_violation(ID, e, "feasible-point"))
            return res
        if w is None:
            continue
        vals = [np.array(v, dtype=float) for v in F(w, view.p0)]
        if not all(np.all(np.isfinite(v)) for v in vals) or max(float(np.max(np.abs(v))) for v in vals) > 1e4:
            continue
        _, g, lb, ub = view.eval(w)
        slacks = []
        for r in rows:
            if np.isfinite(ub[r]):
                slacks.append(ub[r] - g[r])
            if np.isfinite(lb[r]):
                slacks.append(g[r] - lb[r])
        row_min = float(np.min(slacks))
        ph = obs.rb(w)
        t7 = vals[0].reshape(-1)
        traj_min = np.inf
        worst_at = None
        for k in range(N):
            ucur = {s["name"]: ph["uc:" + s["name"]][k].reshape(-1) for s in spec["controls"]}
            for l in range(M):
                idx = k * M + l
                tt = t7[idx * 7:idx * 7 + 8]
                h = tt[-1] - tt[0]
                if h == 0:
                    continue
                tau = np.linspace(0, 1, 25)
                xs, xds = {}, {}
                for j, n in enumerate(snames):
                    yy = vals[2 * j + 1].reshape(-1)[idx * 7:idx * 7 + 8]
                    coef = np.polyfit((tt - tt[0]) / h, yy, 4)
                    xs[n] = np.polyval(coef, tau)
                    xds[n] = np.polyval(np.polyder(coef), tau) / h
                ev = ev_inf(case["expr"], xs, xds, ucur) * np.ones_like(tau)
                bnd = case["bound"]
                if case.get("rhs_expr") is not None:
                    bnd = bnd + ev_inf(case["rhs_expr"], xs, xds, ucur) * np.ones_like(tau)
                if psig is not None:
                    pp_ = vals[-1].reshape(-1)[idx * 7:idx * 7 + 8]
                    bnd = bnd + np.polyval(np.polyfit((tt - tt[0]) / h, pp_, 2), tau)
                sl = (bnd - ev) if case["form"] == "le" else (ev - bnd)
                if np.min(sl) < traj_min:
                    traj_min = float(np.min(sl))
                    worst_at = (k, l, float(tt[0] + h * tau[int(np.argmin(sl))]))
        res["evals"] += 1
        res["counters"]["oracle_points"] += 1
        gap = row_min - traj_min
        res["counters"]["max_gap"] = max(res["counters"]["max_gap"], gap)
        if gap > 1e-7 * (1 + abs(row_min) + abs(traj_min)):
            g_ = m.get("grid") or {}
            res["violations"].append({
                "kind": "certificate-unsound",
                "mech": "C15|certificate-not-sufficient|%s|%s" % (
                    "uniform" if (g_.get("cls", "Uniform") == "Uniform" and not g_.get("localize_T") and not g_.get("localize_t0"))
                    else "nonuniform", "der" if "der" in case["kinds"] else "plain"),
                "detail": "point %d (%s): the smallest slack of the %d 'inf' rows is %.9g, but along the scheme's own "
                          "trajectory the constraint slack drops to %.9g (interval %d step %d, t=%.6g): shifting the bound "
                          "by %.3g gives an NLP point that satisfies the rows and violates the constraint between grid "
                          "points" % (it, how, len(rows), row_min, traj_min, worst_at[0], worst_at[1], worst_at[2],
                                      (row_min + traj_min) / 2)})
            break
        if it == 0:
            res["sample"] = {"spec": C.spec_digest(spec), "expr": case["expr"], "rows": len(rows), "row_min_slack": row_min,
                             "trajectory_min_slack": traj_min}
    res["counters"]["max_gap"] = float(res["counters"]["max_gap"])
    res["nontrivial"] = res["counters"]["oracle_points"] > 0
    return res
