"""C07 -- sampling commutes with expression evaluation on every grid."""
import numpy as np

from ..gen import ocpgen, expr as E
from . import common as C

ID = "C07"
LEVEL = "exploration"
RULE = ("Random OCP specifications x every method; for each, 3 random expressions of random shape (scalar, column, row, "
        "matrix) over states, controls, algebraics, user quadrature states, time, per-interval and global parameters / "
        "variables, T and t0 are sampled symbolically on every grid in {control, control-, integrator, integrator with "
        "refine 1..5, integrator_roots}.  At K random decision vectors every block of sample(e, G) must equal the numpy "
        "evaluation of e on the values of its ingredients sampled on the same grid at the same index and on the sampled "
        "time; value(e) of non-signal expressions likewise.  On a subsample the OCP is handed to ipopt with max_iter=0 "
        "and sol.sample / sol.value / sol(stage).sample must give the same numbers with the documented array layout "
        "(leading time index, singleton dimensions removed, entry [i,r,c] = element (r,c) at time i, time vector as long "
        "as the leading dimension).  non-trivial = an expression with at least one signal ingredient compared on a grid "
        "with more than one point; distinct = configuration signature x grid x shape.")
ASSUMPTIONS = ["expression evaluator pair (CasADi builder / numpy evaluator) is the trusted base, self-checked at start-up",
               "primitive symbols sampled on a grid are the observation boundary"]
ANCHORS = ["stage:Stage._grid_control", "stage:Stage._grid_integrator", "stage:Stage._grid_intg_fine", "stage:Stage.value"]
CASE_LIMIT = {"quick": 120, "thorough": 300}

PROFILE = {"methods": ["MS", "SS", "DC"], "alg": 0.5, "intgs": ["rk", "expl_euler", "next"],
           "grids": ["uniform", "geometric", "function", "free", "uniform_loc"], "quad_states": 0.3,
           "N": [1, 2, 3, 4], "M": [1, 2, 3]}

SHAPES = [(1, 1), (1, 1), (2, 1), (3, 1), (1, 2), (1, 3), (2, 2), (2, 3)]


def gen_cases(rng, tier):
    n = 150 if tier == "quick" else 3000
    cases = []
    for i in range(n):
        spec = ocpgen.gen_stage(rng, PROFILE)
        lv = spec["leaves"]
        sig = ocpgen.signal_leaves(spec) + ocpgen.global_leaves(spec) + [["T"], ["t0"]]
        qleaves = [E.sym(s["name"]) for s in spec["states"] if s.get("quad")]
        exprs = []
        for j in range(3):
            shp = rng.choice(SHAPES)
            leaves = sig + (qleaves if rng.random() < 0.5 else [])
            mat = [[E.rand_expr(rng, leaves, depth=rng.choice([1, 2, 2])) for _ in range(shp[1])] for _ in range(shp[0])]
            if not any(E.is_signal(e, set(ocpgen._signal_names(spec))) for row in mat for e in row):
                mat[0][0] = ["+", mat[0][0], rng.choice(lv["x"])]
            exprs.append(mat)
        glob = ocpgen.global_leaves(spec) + [["T"], ["t0"]]
        vs = rng.choice([(1, 1), (2, 1), (1, 2), (2, 2)])
        vexpr = [[E.rand_expr(rng, glob, depth=2) for _ in range(vs[1])] for _ in range(vs[0])]
        tap = rng.random() < (0.25 if tier == "quick" else 0.2) and spec["method"].get("intg") in (None, "rk", "expl_euler")
        if tap:
            # make every decision variable part of the NLP (Opti cannot report values of symbols that appear in no
            # row and not in the objective)
            body = None
            for leaf in ocpgen.signal_leaves(spec, with_time=False):
                body = ["sq", leaf] if body is None else ["+", body, ["sq", leaf]]
            spec["objective"] = [["sum+", body]]
            for leaf in ocpgen.global_leaves(spec):
                spec["objective"].append(["sq", leaf])
            spec["solver_options"] = {"ipopt.max_iter": 0, "ipopt.print_level": 0, "print_time": False,
                                      "ipopt.hessian_approximation": "limited-memory"}
        cases.append({"spec": spec, "exprs": exprs, "vexpr": vexpr, "K": 3 if tier == "quick" else 5,
                      "refine": rng.choice([1, 2, 3, 5]), "seed": rng.getrandbits(32), "tap": bool(tap)})
    if tier == "thorough":
        cases.append({"kind": "suite"})
    return cases


def run_suite(case):
    """the repository's stable tests with the harness contracts (DM2numpy layout, grids, splines, clone) switched on"""
    import json
    import os
    import subprocess
    from .. import bootstrap
    res = {"sig": "repository-test-suite-with-contracts", "evals": 0, "violations": [], "counters": {}}
    stable = json.load(open("/root/.vp/BASELINE.json"))["stable_pass"] if os.path.exists("/root/.vp/BASELINE.json") else []
    ids = []
    for t in stable:
        mod, rest = t.split(".", 1)[1].split(".", 1) if t.startswith("tests.") else (None, None)
        # tests.test_misc.MiscTests::test_x -> tests/test_misc.py::MiscTests::test_x
        m, cls_test = t[len("tests."):].split(".", 1)
        ids.append(os.path.join(bootstrap.repo_dir(), "tests", m + ".py") + "::" + cls_test)
    if not ids:
        res["status"] = "inconclusive"
        res["note"] = "no stable test list available"
        return res
    out = os.path.join(os.getcwd(), "contracts_suite.json")
    env = dict(os.environ)
    env["RV_CONTRACT_OUT"] = out
    env["PYTHONPATH"] = os.pathsep.join([bootstrap.repo_dir(), bootstrap.VERIF_DIR, bootstrap.DEPS_DIR])
    env["MPLBACKEND"] = "Agg"
    try:
        r = subprocess.run([bootstrap.PYTHON, "-m", "pytest", "-q", "-p", "no:cacheprovider", "-p", "rv.obs.pytest_contracts",
                            "--timeout=900", "-x", "--no-header", "-rN"] + ids, env=env, capture_output=True, text=True,
                           timeout=1500, cwd=os.getcwd())
    except subprocess.TimeoutExpired:
        res["status"] = "inconclusive"
        res["note"] = "test suite timed out"
        return res
    if not os.path.exists(out):
        res["status"] = "inconclusive"
        res["note"] = "test-suite run produced no contract report: " + (r.stdout + r.stderr)[-400:]
        return res
    data = json.load(open(out))
    res["evals"] = int(sum(data["counts"].values()))
    res["counters"] = {"contract:" + k: v for k, v in data["counts"].items()}
    res["counters"]["suite_returncode"] = r.returncode
    res["violations"] = data["violations"]
    res["nontrivial"] = res["evals"] > 0
    res["sample"] = {"tests": len(ids), "contract_evaluations": data["counts"], "pytest_tail": r.stdout[-200:]}
    return res


def worker_init():
    w = E.self_check(100)
    assert w < 1e-12, w


def classify(case, v):
    return v.get("mech")


class PointEnv:
    def __init__(self, vals, i, T, t0, t):
        self.vals, self.i, self.T, self.t0, self.t = vals, i, T, t0, t

    def sym(self, name, r, c):
        v = self.vals[name]
        if v.ndim == 2:          # global quantity
            return float(v[r, c])
        return float(v[self.i][r, c])

    def placeholder(self, kind, e):
        raise RuntimeError("placeholder in a sampled expression")

    def offset(self, e, k):
        raise RuntimeError("offset in a sampled expression")

    @property
    def DT(self):
        raise RuntimeError("DT")

    @property
    def DTc(self):
        raise RuntimeError("DTc")


def blocks(arr, m):
    arr = np.array(arr, dtype=float)
    if arr.ndim == 1:
        arr = arr.reshape(1, -1)
    K = arr.shape[1] // m
    return np.stack([arr[:, k * m:(k + 1) * m] for k in range(K)], axis=0)


def uses_sym(mat, names):
    return any(n[0] == "s" and n[1] in names for row in mat for e in row for n in E.walk(e))


def run_case(case):
    if case.get("kind") == "suite":
        return run_suite(case)
    import casadi as ca
    from ..gen import build
    from ..obs import nlp
    spec = case["spec"]
    m = spec["method"]
    cls, N, M = m["cls"], m["N"], m["M"]
    base_sig = C.config_sig(spec)
    res = {"sig": base_sig, "evals": 0, "violations": [],
           "counters": {"blocks_compared": 0, "grids": 0, "numeric_arrays": 0, "values": 0}}
    try:
        b = C.call("declare", build.build_ocp, spec)
        st = b.stage
        ex_mx = [b.ca_mat(mat) for mat in case["exprs"]]
        v_mx = b.ca_mat(case["vexpr"])
        view = C.call("transcribe", nlp.NlpView, b.ocp)
    except C.RockitRaised as e:
        res["violations"].append(C.exc_violation(ID, e, "|".join(base_sig.split("|")[:2])))
        return res
    has_poly = (cls == "DC") or (spec.get("dyn") == "ode" and m.get("intg") in ("rk", "expl_euler"))
    qnames = {s["name"] for s in spec["states"] if s.get("quad")}
    znames = {s["name"] for s in spec.get("algebraics", [])}
    grids = [("control", {}), ("control-", {}), ("integrator", {})]
    if has_poly:
        grids.append(("integrator", {"refine": case["refine"]}))
    if cls == "DC":
        grids.append(("integrator_roots", {}))
    prim = [s for key in ("states", "controls", "algebraics", "params", "variables") for s in spec.get(key, [])]
    rng = np.random.default_rng(case["seed"])
    points = [view.random_point(rng) for _ in range(case["K"])]
    sigs = set()
    sample_rec = None
    for gname, kw in grids:
        gtag = gname + ("+refine%d" % kw["refine"] if kw else "")
        # which primitives / expressions are defined on this grid
        skip = set()
        if gname == "integrator_roots" or (kw and cls == "DC"):
            skip |= qnames        # no quadrature polynomial / root values for quadrature states
        if cls != "DC":
            skip |= znames
        prims_here = [s for s in prim if s["name"] not in skip]
        ex_here = [(mat, mx) for mat, mx in zip(case["exprs"], ex_mx) if not uses_sym(mat, skip)]
        if not ex_here:
            continue
        try:
            outs = []
            tvec, _ = C.call("sample:%s" % gtag, st.sample, st.t, grid=gname, **kw)
            _, tval = C.call("sample:%s" % gtag, st.sample, st.t, grid=gname, **kw)
            outs += [ca.MX(tvec), ca.MX(tval), ca.MX(st.value(st.T)), ca.MX(st.value(st.t0))]
            for s in prims_here:
                if s.get("grid") or s["name"] in b.syms and (
                        s in spec.get("states", []) or s in spec.get("controls", []) or s in spec.get("algebraics", [])):
                    outs.append(ca.MX(C.call("sample:%s" % gtag, st.sample, b.syms[s["name"]], grid=gname, **kw)[1]))
                else:
                    outs.append(ca.MX(C.call("value", st.value, b.syms[s["name"]])))
            for mat, mx in ex_here:
                outs.append(ca.MX(C.call("sample:%s" % gtag, st.sample, mx, grid=gname, **kw)[1]))
            F = ca.Function("s", [view.x, view.p], outs)
        except C.RockitRaised as e:
            res["violations"].append(C.exc_violation(ID, e, gtag))
            continue
        res["counters"]["grids"] += 1
        for w in points:
            vals = F(w, view.p0)
            tvec_v = np.array(vals[0]).reshape(-1)
            tval_v = np.array(vals[1]).reshape(-1)
            T, t0 = float(vals[2]), float(vals[3])
            pv = {}
            for s, v in zip(prims_here, vals[4:4 + len(prims_here)]):
                is_sig = s.get("grid") or s in spec.get("states", []) or s in spec.get("controls", []) or \
                    s in spec.get("algebraics", [])
                pv[s["name"]] = blocks(v, s["shape"][1]) if is_sig else np.array(v, dtype=float).reshape(s["shape"])
            n_t = len(tval_v)
            res["evals"] += 1
            if gname == "control-":
                mech_len = "C07|time-vector-length|control-"
            else:
                mech_len = "C07|time-vector-length|" + gname
            bad = False
            for (mat, mx), v in zip(ex_here, vals[4 + len(prims_here):]):
                shp = (len(mat), len(mat[0]))
                got = blocks(v, shp[1])
                if got.shape[0] != n_t or len(tvec_v) != got.shape[0]:
                    if not any(x["mech"] == mech_len for x in res["violations"]):
                        res["violations"].append({
                            "kind": "time-vector-length", "mech": mech_len,
                            "detail": "grid %s: time vector has %d entries, sample(t) %d, sample(e) %d blocks" % (
                                gtag, len(tvec_v), n_t, got.shape[0])})
                nb = min(got.shape[0], n_t)
                worst = 0.0
                for i in range(nb):
                    env = PointEnv(pv, i, T, t0, float(tval_v[i]))
                    want = np.array([[E.ev(e, env) for e in row] for row in mat])
                    if not C.finite(want, got[i]):
                        continue
                    worst = max(worst, float(np.max(np.abs(want - got[i]) / (1 + np.abs(want)))))
                    res["counters"]["blocks_compared"] += 1
                res["evals"] += 1
                sigs.add("%s|%s|%dx%d" % (base_sig, gtag, shp[0], shp[1]))
                if worst > 1e-9:
                    res["violations"].append({
                        "kind": "not-compositional", "mech": "C07|not-compositional|" + gname + ("+refine" if kw else ""),
                        "detail": "grid %s, %dx%d expression: sample(e) differs from e(sampled ingredients) by %.3g "
                                  "(relative)" % (gtag, shp[0], shp[1], worst)})
                    bad = True
                    break
                if sample_rec is None and nb > 1:
                    sample_rec = {"spec": C.spec_digest(spec), "grid": gtag, "shape": shp, "n_t": int(n_t),
                                  "block1_rockit": C.short(got[1]), "block1_numpy": C.short(want)}
            if bad:
                break
    # ground truth for primitives that are not decision variables on the grid they are sampled on
    if not res["violations"]:
        try:
            primitive_truth(case, b, view, points, res)
        except C.RockitRaised as e:
            res["violations"].append(C.exc_violation(ID, e, "primitive-truth"))
    if not res["violations"]:
        try:
            cross_grid_truth(case, b, view, points, grids, res)
        except C.RockitRaised as e:
            res["violations"].append(C.exc_violation(ID, e, "cross-grid"))
    # value() of non-signal expressions
    try:
        outs = [ca.MX(C.call("value", st.value, v_mx)), ca.MX(st.value(st.T)), ca.MX(st.value(st.t0))]
        gl = [s for s in spec.get("params", []) + spec.get("variables", []) if not s.get("grid")]
        outs += [ca.MX(st.value(b.syms[s["name"]])) for s in gl]
        Fv = ca.Function("v", [view.x, view.p], outs)
        for w in points:
            vals = Fv(w, view.p0)
            pv = {s["name"]: np.array(v, dtype=float).reshape(s["shape"]) for s, v in zip(gl, vals[3:])}
            env = PointEnv(pv, 0, float(vals[1]), float(vals[2]), None)
            want = np.array([[E.ev(e, env) for e in row] for row in case["vexpr"]])
            got = np.array(vals[0], dtype=float).reshape(want.shape)
            res["evals"] += 1
            res["counters"]["values"] += 1
            if C.finite(want) and np.max(np.abs(want - got) / (1 + np.abs(want))) > 1e-9:
                res["violations"].append({"kind": "value-not-compositional", "mech": "C07|value-not-compositional",
                                          "detail": "value(e)=%s, e(values)=%s" % (C.short(got), C.short(want))})
                break
    except C.RockitRaised as e:
        res["violations"].append(C.exc_violation(ID, e, "value"))
    # numeric read-back and array layout
    if case.get("tap") and not [v for v in res["violations"] if v["kind"] != "time-vector-length"]:
        numeric_layout(case, b, view, grids, prim, qnames, znames, cls, res)
    res["sig"] = sorted(sigs)[0] if sigs else base_sig
    res["extra_sigs"] = len(sigs)
    res["nontrivial"] = res["counters"]["blocks_compared"] > 0
    if sample_rec:
        res["sample"] = sample_rec
    return res


def numeric_layout(case, b, view, grids, prim, qnames, znames, cls, res):
    """sol.sample / sol.value: same map applied to the solver's decision vector + documented array layout"""
    spec = case["spec"]
    st = b.stage
    try:
        try:
            sol = b.ocp.solve_limited()
        except Exception:
            sol = b.ocp.non_converged_solution
    except Exception as e:  # noqa
        res["violations"].append(C.exc_violation(ID, C.RockitRaised("solve_limited", e), "tap"))
        return
    for gname, kw in grids:
        gtag = gname + ("+refine" if kw else "")
        skip = set()
        if gname == "integrator_roots" or (kw and cls == "DC"):
            skip |= qnames
        if cls != "DC":
            skip |= znames
        for mat, mx in zip(case["exprs"], [b.ca_mat(mm) for mm in case["exprs"]]):
            if uses_sym(mat, skip):
                continue
            shp = (len(mat), len(mat[0]))
            try:
                ts, arr = sol.sample(mx, grid=gname, **kw)
                tsp = {}
                pv = {}
                for s in prim:
                    if s["name"] in skip:
                        continue
                    is_sig = s.get("grid") or s in spec.get("states", []) or s in spec.get("controls", []) or \
                        s in spec.get("algebraics", [])
                    if is_sig:
                        _, a = sol.sample(b.syms[s["name"]], grid=gname, **kw)
                        a = np.array(a, dtype=float)
                        pv[s["name"]] = a.reshape((a.shape[0],) + tuple(s["shape"]))
                    else:
                        pv[s["name"]] = np.array(sol.value(b.syms[s["name"]]), dtype=float).reshape(s["shape"])
                T, t0 = float(sol.value(st.T)), float(sol.value(st.t0))
                _, tval = sol.sample(st.t, grid=gname, **kw)
            except Exception as e:  # noqa
                mech = "C07|exception|sol.sample|%s|%s" % (gname, C.norm_msg(e))
                if not any(x["mech"] == mech for x in res["violations"]):
                    res["violations"].append({"kind": "exception", "mech": mech,
                                              "detail": "sol.sample on grid %s raised %r" % (gtag, e)})
                break
            ts = np.array(ts).reshape(-1)
            arr = np.array(arr, dtype=float)
            want_shape = (len(ts),) + tuple(d for d in shp if d != 1)
            res["evals"] += 1
            res["counters"]["numeric_arrays"] += 1
            if arr.shape != want_shape:
                res["violations"].append({"kind": "array-layout", "mech": "C07|array-shape|" + gname,
                                          "detail": "grid %s, %dx%d expression: sol.sample returned shape %s, documented "
                                                    "layout is %s" % (gtag, shp[0], shp[1], arr.shape, want_shape)})
                return
            full = arr.reshape((len(ts),) + shp)
            worst = 0.0
            for i in range(len(ts)):
                env = PointEnv(pv, i, T, t0, float(np.array(tval).reshape(-1)[i]))
                want = np.array([[E.ev(e, env) for e in row] for row in mat])
                if C.finite(want, full[i]):
                    worst = max(worst, float(np.max(np.abs(want - full[i]) / (1 + np.abs(want)))))
            if worst > 1e-9:
                res["violations"].append({"kind": "numeric-readback", "mech": "C07|numeric-readback|" + gname,
                                          "detail": "grid %s, %dx%d: sol.sample(e)[i,r,c] differs from e(sol.sample "
                                                    "ingredients) by %.3g" % (gtag, shp[0], shp[1], worst)})
                return


def cross_grid_truth(case, b, view, points, grids, res):
    """Piecewise-constant quantities (controls, per-interval parameters and variables) sampled on a finer grid take, at
    every point of control interval k, the control-grid value of interval k, and at t=tf the final control-grid value
    (the extra column for include_last symbols); states and time at the refined points that are integrator points
    equal the integrator-grid samples."""
    import casadi as ca
    spec = case["spec"]
    st = b.stage
    m = spec["method"]
    cls, N, M = m["cls"], m["N"], m["M"]
    d = m.get("degree", 4)
    pw = [s_ for s_ in spec.get("controls", []) if not s_.get("order")] + \
        [s_ for s_ in spec.get("params", []) + spec.get("variables", []) if s_.get("grid") == "control"]
    xs = [s_ for s_ in spec.get("states", []) if not s_.get("quad")]
    res["counters"]["cross_grid"] = 0
    outs, index = [], []
    for s_ in pw + xs:
        outs.append(ca.MX(C.call("sample:control", st.sample, b.syms[s_["name"]], grid="control")[1]))
        index.append((s_["name"], "control", None))
    for gname, kw in grids:
        if gname in ("control", "control-"):
            continue
        for s_ in pw + (xs if gname == "integrator" else []):
            outs.append(ca.MX(C.call("sample:%s" % gname, st.sample, b.syms[s_["name"]], grid=gname, **kw)[1]))
            index.append((s_["name"], gname, kw.get("refine")))
    if not outs:
        return
    F = ca.Function("cg", [view.x, view.p], outs)
    shapes = {s_["name"]: s_["shape"] for s_ in pw + xs}
    for w in points:
        vals = F(w, view.p0)
        got = {}
        for (name, gname, ref_), v in zip(index, vals):
            got[(name, gname, ref_)] = blocks(v, shapes[name][1])
        for (name, gname, ref_), arr in got.items():
            if gname == "control":
                continue
            vc = got[(name, "control", None)]
            is_pw = any(s_["name"] == name for s_ in pw)
            if is_pw:
                per = M * (ref_ or 1) if gname == "integrator" else M * d
                n_expected = N * per + (1 if gname == "integrator" else 0)
                if arr.shape[0] != n_expected:
                    continue        # block count is the subject of the time-vector-length check
                worst, where = 0.0, None
                for i in range(arr.shape[0]):
                    ref_val = vc[N] if (gname == "integrator" and i == N * per) else vc[i // per]
                    if not C.finite(ref_val, arr[i]):
                        continue
                    e_ = float(np.max(np.abs(ref_val - arr[i]) / (1 + np.abs(ref_val))))
                    if e_ > worst:
                        worst, where = e_, i
                res["evals"] += 1
                res["counters"]["cross_grid"] += 1
                if worst > 1e-9:
                    gt = gname + ("+refine" if ref_ else "")
                    res["violations"].append({
                        "kind": "cross-grid", "mech": "C07|piecewise-constant-sample-wrong|%s|%s" % (
                            gt, "final" if where == arr.shape[0] - 1 and gname == "integrator" else "inner"),
                        "detail": "%s sampled on %s (refine=%s): point %d of %d differs from the control-grid value of its "
                                  "interval by %.3g (relative)" % (name, gname, ref_, where, arr.shape[0], worst)})
                    return
            elif ref_:
                base = got.get((name, "integrator", None))
                if base is None or arr.shape[0] != N * M * ref_ + 1:
                    continue
                # the final point is left out: there the refined sample is the end of the last interval's polynomial
                # and the integrator sample the node variable, equal only where the continuity rows hold
                sel = arr[::ref_][:-1]
                base = base[:-1]
                if not C.finite(sel, base):
                    continue
                e_ = float(np.max(np.abs(sel - base) / (1 + np.abs(base))))
                res["evals"] += 1
                res["counters"]["cross_grid"] += 1
                if e_ > 1e-9:
                    res["violations"].append({
                        "kind": "cross-grid", "mech": "C07|refined-sample-differs-at-integrator-points",
                        "detail": "state %s: every %d-th refined sample should be the integrator-grid sample; max "
                                  "relative difference %.3g" % (name, ref_, e_)})
                    return


def primitive_truth(case, b, view, points, res):
    """Algebraic variables away from the collocation points (polynomial through the root values of the same
    integration interval), quadrature states (accumulated quadrature of the stage's own rule) and, for
    shooting, states at integrator points (the scheme's sub-steps)."""
    from ..obs import coords
    from ..ref import model, colloc
    spec = case["spec"]
    m = spec["method"]
    cls, N, M = m["cls"], m["N"], m["M"]
    want = ("control", "integrator", "roots") if cls == "DC" else ("control", "integrator")
    rb = C.call("sample", coords.ReadBack, b, view, want)
    res["counters"]["primitive_truth"] = 0
    for w in points:
        ph = rb(w)
        ref = model.RefModel(spec, ph)
        errs = {}
        sc = 1.0
        if cls == "SS" and ref.amplification() > 1e3:
            continue        # chaotic recursion: two correct evaluations differ by amplified round-off
        if cls == "DC":
            d, sch = ref.d, ref.scheme
            ref.dc_integrals()
            for s in ref.algs:
                n = s["name"]
                zr = ph["zr:" + n]
                for idx in range(N * M):
                    vals = [zr[idx * d + j] for j in range(d)]
                    e0 = colloc.interp_through_roots(d, sch, vals, 0.0)
                    errs["z-integrator"] = max(errs.get("z-integrator", 0), float(np.max(np.abs(ph["zi:" + n][idx] - e0))))
                    if idx % M == 0:
                        errs["z-control"] = max(errs.get("z-control", 0),
                                                float(np.max(np.abs(ph["zc:" + n][idx // M] - e0))))
                    sc = max(sc, float(np.max(np.abs(e0))))
                vals = [zr[(N * M - 1) * d + j] for j in range(d)]
                e1 = colloc.interp_through_roots(d, sch, vals, 1.0)
                errs["z-final"] = max(errs.get("z-final", 0), float(np.max(np.abs(ph["zc:" + n][N] - e1))))
                errs["z-final-integrator"] = max(errs.get("z-final-integrator", 0),
                                                 float(np.max(np.abs(ph["zi:" + n][N * M] - e1))))
            Qnode = ref._dcint[1] if hasattr(ref, "_dcint") else ref.dc_integrals()[1]
            Qsub = ref._dc_qsub
        else:
            tr = ref.traj()
            Qnode = tr["Qnode"]
            Qsub = [tr["Qsub"][k][l] for k in range(N) for l in range(M)]
            for s in ref.states:
                n = s["name"]
                for k in range(N):
                    for l in range(M):
                        errs["x-integrator"] = max(errs.get("x-integrator", 0), float(
                            np.max(np.abs(ph["xi:" + n][k * M + l] - tr["subs"][k][l][n]))))
                        sc = max(sc, float(np.max(np.abs(tr["subs"][k][l][n]))))
        for s in ref.qstates:
            n = s["name"]
            for k in range(N + 1):
                errs["q-control"] = max(errs.get("q-control", 0), float(np.max(np.abs(ph["qc:" + n][k] - Qnode[k][n]))))
                sc = max(sc, float(np.max(np.abs(Qnode[k][n]))))
            for idx in range(N * M):
                errs["q-integrator"] = max(errs.get("q-integrator", 0),
                                           float(np.max(np.abs(ph["qi:" + n][idx] - Qsub[idx][n]))))
            errs["q-final-integrator"] = float(np.max(np.abs(ph["qi:" + n][N * M] - Qnode[N][n])))
        res["evals"] += len(errs)
        res["counters"]["primitive_truth"] += len(errs)
        for k, v in errs.items():
            if not np.isfinite(v) or not np.isfinite(sc):
                continue        # overflow at this random point: nothing to compare
            if not (v <= 1e-9 * (1 + sc)):
                res["violations"].append({"kind": "primitive-sample-wrong", "mech": "C07|primitive-sample-wrong|" + k,
                                          "detail": "%s: sampled primitive differs from its defining value by %.3g" % (k, v)})
                return
