"""C17 -- B-spline signals and SplineMethod trajectories are exact splines of the model."""
import numpy as np

from ..gen import ocpgen
from . import common as C

ID = "C17"
LEVEL = "exploration"
RULE = ("(A) pure helpers eval_on_knots / bspline_derivative / get_greville_points for every degree 0..4, N 1..8, uniform "
        "and random non-uniform knots, subsamples 0..4 / explicit subgrids and random vector-valued coefficients vs "
        "scipy.interpolate.BSpline on clamped knots (design matrix, derivative, knot averages), plus partition of unity "
        "and non-negativity.  (B) SplineMethod on generated integrator-chain systems (mixed chain lengths, vector states, "
        "higher-order controls, bspline variables of order 0..4, t0 != 0, T != 1, uniform / geometric / function grids): "
        "at random decision vectors every state / control / bspline variable sampled on the control grid and with "
        "refine 2..5 must equal the Cox-de Boor evaluation (scipy) of the coefficients reported on the 'gist' grid at the "
        "sampled times, gist times must be the Greville points mapped to [t0, t0+T], the spline degree must be the one "
        "the chain position determines, every declared derivative relation must hold identically in time on the refined "
        "grid, der() of bspline variables (1st..3rd) must be the analytic derivative in physical time, and the "
        "inequality rows of the NLP must be exactly one instance of every declared path constraint per (refined) grid "
        "point.  (C) bspline variables under MultipleShooting / DirectCollocation: samples on control, refined integrator "
        "and root grids must lie in the spline space of the declared order on the control-grid knots and agree across "
        "grids.  (D) on convex chain problems SplineMethod and MultipleShooting (rk) are solved with ipopt and must agree "
        "on the optimal cost and trajectories.  (E) SplineMethod with grid='inf' constraints on chain states, bspline variables and der() of them (one- and two-sided, with constant offsets): the NLP is linear, so linear programmes over all its rows give the extreme values the refined sample of the constrained expression can take; a value beyond the declared bound witnesses rows that do not impose the constraint.  (F) chains perturbed by a constant term, a parametric term, a zero derivative, a scaled link, a cross term or a shared control: SplineMethod must either reject the model or the declared right-hand side must equal the analytic derivative of the sampled spline at every refined point.  (G) DirectCollocation with bspline parameters and variables inside the right-hand side next to ordinary and per-interval parameters and variables, declared in random order with distinct weights: the equality rows of the NLP must be the collocation defects (numpy Lagrange weights) with the spline evaluated at the collocation times and every other quantity at its own value.  non-trivial = at least one spline evaluation compared with non-zero "
        "coefficients; distinct = (part, degree/order, N, knot kind, refine, chain layout).")
ASSUMPTIONS = ["scipy.interpolate.BSpline on clamped knot vectors is the specification of a B-spline",
               "networkx (optional dependency of SplineMethod) is taken from the offline wheelhouse"]
ANCHORS = ["micro_spline:eval_on_knots", "micro_spline:bspline_derivative", "micro_spline:get_greville_points",
           "spline_method:SplineMethod.grid_control", "spline_method:SplineMethod.grid_gist"]
CASE_LIMIT = {"quick": 240, "thorough": 600}


def gen_cases(rng, tier):
    cases = []
    na = 300 if tier == "quick" else 5000
    for i in range(na):
        N = rng.choice([1, 2, 3, 4, 5, 6, 7, 8])
        d = rng.choice([0, 1, 2, 3, 4])
        if rng.random() < 0.5:
            xi = [k / N for k in range(N + 1)]
            kind = "uniform"
        else:
            steps = [rng.uniform(0.05, 1.0) for _ in range(N)]
            tot = sum(steps)
            xi = [0.0]
            for s in steps:
                xi.append(xi[-1] + s / tot)
            xi[-1] = 1.0
            kind = "random"
        if rng.random() < 0.3:
            # physical knots (not normalised)
            a, b = rng.uniform(-2, 2), rng.uniform(0.3, 3)
            xi = [a + b * x for x in xi]
            kind += "-phys"
        sub = rng.choice([0, 1, 2, 3, 4])
        subgrid = None
        if rng.random() < 0.3:
            subgrid = sorted(round(rng.uniform(0.02, 0.98), 4) for _ in range(rng.choice([1, 2, 3])))
        cases.append({"part": "A", "N": N, "d": d, "xi": xi, "knots": kind, "subsamples": sub, "subgrid": subgrid,
                      "m": rng.choice([1, 2, 3]), "seed": rng.getrandbits(32)})
    nb = 45 if tier == "quick" else 500
    for i in range(nb):
        N = rng.choice([1, 2, 3, 4, 5, 6])
        chains = []
        for _ in range(rng.randint(1, 3)):
            chains.append({"len": rng.choice([1, 2, 2, 3, 4]), "dim": rng.choice([1, 1, 2]),
                           "via_order": rng.random() < 0.4})
        bvars = [{"order": rng.choice([0, 1, 2, 3, 4]), "dim": rng.choice([1, 2])} for _ in range(rng.randint(0, 2))]
        grid = ocpgen.gen_grid(rng, ["uniform", "uniform", "geometric", "function"], N)
        cons = []
        for c in range(rng.randint(0, 3)):
            cons.append({"refine": rng.choice([1, 1, 2, 3, 4]), "chain": rng.randrange(len(chains)),
                         "lb": ocpgen.rnd(rng, -3, -0.5), "ub": ocpgen.rnd(rng, 0.5, 3), "coef": ocpgen.rnd(rng, 0.3, 2),
                         "level": rng.random()})
        cases.append({"part": "B", "N": N, "chains": chains, "bvars": bvars, "grid": grid, "constraints": cons,
                      "t0": ocpgen.rnd(rng, -1, 1, 2), "T": ocpgen.rnd(rng, 0.4, 3, 2), "refine": rng.choice([2, 3, 4, 5]),
                      "retrans": [ocpgen.rnd(rng, 0.4, 3, 2), ocpgen.rnd(rng, -1, 1, 2)] if rng.random() < 0.4 else None,
                      "seed": rng.getrandbits(32)})
    nc = 30 if tier == "quick" else 400
    for i in range(nc):
        cases.append({"part": "C", "cls": rng.choice(["MS", "DC"]), "N": rng.choice([1, 2, 3, 4, 5]),
                      "M": rng.choice([1, 2]), "order": rng.choice([0, 1, 2, 3, 4]), "dim": rng.choice([1, 2]),
                      "grid": ocpgen.gen_grid(rng, ["uniform", "geometric", "function"], 3),
                      "t0": ocpgen.rnd(rng, -1, 1, 2), "T": ocpgen.rnd(rng, 0.4, 3, 2), "refine": rng.choice([2, 3, 5]),
                      "param": rng.random() < 0.3, "seed": rng.getrandbits(32)})
    ne = 30 if tier == "quick" else 400
    for i in range(ne):
        cons = []
        L = rng.choice([1, 2, 3])
        # rockit rejects (assertion) inf constraints on states and on bspline signals in one stage, and on two
        # different signals: one kind per case
        kind = rng.choice(["signal", "dsignal", "state", "state", "state_pair", "state_mix"])
        if kind == "state_mix" and L == 1:
            kind = "state_pair"
        for _ in range(rng.randint(1, 2)):
            lb, ub = ocpgen.rnd(rng, -3, -0.5), ocpgen.rnd(rng, 0.5, 3)
            r_ = rng.random()
            if r_ < 0.25:
                lb = None
            elif r_ < 0.5:
                ub = None
            cons.append({"kind": kind, "alpha": rng.choice([1.0, ocpgen.rnd(rng, 0.3, 2), -ocpgen.rnd(rng, 0.3, 2)]),
                         "beta": rng.choice([0.0, ocpgen.rnd(rng, -1, 1), ocpgen.rnd(rng, -1, 1)]), "lb": lb, "ub": ub,
                         "level": rng.randrange(L), "gamma": rng.choice([1.0, -1.0, ocpgen.rnd(rng, 0.3, 2)])})
            if kind == "state_mix":
                cons[-1]["level2"] = rng.choice([j for j in range(L) if j != cons[-1]["level"]])
        cases.append({"part": "E", "N": rng.choice([1, 2, 3, 4, 5]), "len": L, "order": rng.choice([1, 2, 3, 4]),
                      "grid": ocpgen.gen_grid(rng, ["uniform", "uniform", "geometric", "function"], 3), "cons": cons,
                      "t0": ocpgen.rnd(rng, -1, 1, 2), "T": ocpgen.rnd(rng, 0.4, 3, 2), "refine": 4,
                      "seed": rng.getrandbits(32)})
    nf = 35 if tier == "quick" else 500
    for i in range(nf):
        cases.append({"part": "F", "kind": F_KINDS[i % len(F_KINDS)], "N": rng.choice([1, 2, 3, 4, 5]),
                      "len": rng.choice([1, 2, 3]), "where": rng.randrange(3), "c": rng.choice([1.0, -0.7, 2.0, 0.35]),
                      "pval": ocpgen.rnd(rng, 0.3, 2), "refine": rng.choice([2, 3, 5]),
                      "grid": ocpgen.gen_grid(rng, ["uniform", "geometric", "function"], 3),
                      "t0": ocpgen.rnd(rng, -1, 1, 2), "T": ocpgen.rnd(rng, 0.4, 3, 2), "seed": rng.getrandbits(32)})
    ng = 40 if tier == "quick" else 600
    for i in range(ng):
        N = rng.choice([1, 2, 3, 4])
        kinds = ["bpar", "bvar", "var", "par", "parc", "varc"]
        use = {k: rng.random() < 0.5 for k in kinds}
        if not (use["bpar"] or use["bvar"]):
            use[rng.choice(["bpar", "bvar"])] = True
        order = list(kinds)
        rng.shuffle(order)
        bpo, bvo = rng.choice([0, 1, 2, 3]), rng.choice([0, 1, 2, 3])
        cases.append({"part": "G", "N": N, "M": rng.choice([1, 2]), "degree": rng.choice([1, 2, 3]),
                      "scheme": rng.choice(["radau", "legendre"]), "use": use, "order": order, "bp_order": bpo, "bv_order": bvo,
                      "bp_coef": [ocpgen.rnd(rng, -2, 2) for _ in range(N + bpo)], "p_val": ocpgen.rnd(rng, -2, 2),
                      "pc_val": [ocpgen.rnd(rng, -2, 2) for _ in range(N)],
                      "weights": {k: w_ for k, w_ in zip(["x", "u"] + kinds, [-0.7, 1.0, 10.0, 100.0, 3.0, 0.3, 30.0, 0.03])},
                      "grid": ocpgen.gen_grid(rng, ["uniform", "geometric", "function"], 3),
                      "t0": ocpgen.rnd(rng, -1, 1, 2), "T": ocpgen.rnd(rng, 0.4, 3, 2), "seed": rng.getrandbits(32)})
    nd = 10 if tier == "quick" else 120
    for i in range(nd):
        cases.append({"part": "D", "N": rng.choice([4, 6, 8]), "len": rng.choice([2, 3]), "T": ocpgen.rnd(rng, 0.8, 2.5, 2),
                      "target": ocpgen.rnd(rng, 0.3, 1.5, 2), "umax": ocpgen.rnd(rng, 2.0, 6.0, 2),
                      "grid": rng.choice([{"cls": "Uniform"}, {"cls": "Geometric", "growth": 2.0}]),
                      "integral": i % 3 == 2 and True, "seed": rng.getrandbits(32)})
    return cases


def classify(case, v):
    return v.get("mech")


def clamped(xi, d):
    xi = list(xi)
    return np.array([xi[0]] * d + xi + [xi[-1]] * d, dtype=float)


def design(xi, d, x):
    """(n_coeff, len(x)) matrix of B-spline basis values on clamped knots (scipy)"""
    from scipy.interpolate import BSpline
    t = clamped(xi, d)
    n = len(t) - d - 1
    x = np.asarray(x, dtype=float)
    out = np.zeros((n, len(x)))
    for i in range(n):
        c = np.zeros(n)
        c[i] = 1.0
        b = BSpline(t, c, d, extrapolate=False)
        out[i] = np.nan_to_num(b(x))
    if d == 0:
        # piecewise constant: the last point belongs to the last interval
        last = np.isclose(x, xi[-1])
        out[:, last] = 0
        out[-1, last] = 1.0
    return out


def spline_eval(xi, d, coeff, x, nu=0):
    """coeff: (m, n_coeff); returns (m, len(x)) values of the nu-th derivative"""
    from scipy.interpolate import BSpline
    t = clamped(xi, d)
    coeff = np.atleast_2d(np.asarray(coeff, dtype=float))
    out = []
    for row in coeff:
        b = BSpline(t, row, d, extrapolate=False)
        if nu:
            if nu > d:
                out.append(np.zeros(len(x)))
                continue
            b = b.derivative(nu)
        v = b(np.asarray(x, dtype=float))
        if d - nu == 0:
            xx = np.asarray(x, dtype=float)
            lastmask = np.isclose(xx, xi[-1])
            if np.any(lastmask):
                v = np.array(v)
                v[lastmask] = b(np.array([xi[-1] - 1e-12 * (1 + abs(xi[-1]))]))[0]
        out.append(np.nan_to_num(v))
    return np.array(out)


def greville(xi, d):
    if d == 0:
        return np.array([(xi[i] + xi[i + 1]) / 2 for i in range(len(xi) - 1)])
    t = clamped(xi, d)
    n = len(t) - d - 1
    return np.array([np.mean(t[i + 1:i + d + 1]) for i in range(n)])


# ------------------------------------------------------------------------------------------------ part A
def run_A(case):
    import casadi as ca
    from rockit.splines import micro_spline as ms
    N, d, xi = case["N"], case["d"], case["xi"]
    res = {"sig": "A|d%d|N%d|%s|sub%s" % (d, N, case["knots"], case["subgrid"] and "grid" or case["subsamples"]),
           "evals": 0, "violations": [], "counters": {"basis_entries": 0, "derivative_points": 0, "greville_points": 0}}
    rng = np.random.default_rng(case["seed"])
    XI = ca.DM(xi).T
    try:
        kw = {"subgrid": case["subgrid"]} if case["subgrid"] else {"subsamples": case["subsamples"]}
        k, B = C.call("eval_on_knots", ms.eval_on_knots, XI, d, **kw)
        k = np.array(ca.evalf(ca.MX(k))).reshape(-1)
        B = np.array(ca.evalf(ca.MX(B)))
    except C.RockitRaised as e:
        res["violations"].append(C.exc_violation(ID, e, "A|d%d" % d))
        return res
    # expected evaluation points
    if case["subgrid"]:
        tau = np.array(case["subgrid"])
    else:
        s = case["subsamples"]
        tau = np.linspace(0, 1, s + 2)[1:-1]
    pts = []
    for i in range(N + 1):
        pts.append(xi[i])
        if i < N:
            pts.extend(list(xi[i] * (1 - tau) + tau * xi[i + 1]))
    pts = np.array(pts)
    res["evals"] += 1
    if len(k) != len(pts) or np.max(np.abs(k - pts)) > 1e-12 * (1 + np.max(np.abs(pts))):
        res["violations"].append({"kind": "knot-points", "mech": "C17|A|evaluation-points",
                                  "detail": "eval_on_knots returns points %s, expected %s" % (C.short(k), C.short(pts))})
        return res
    want = design(xi, d, pts)
    res["evals"] += 1
    res["counters"]["basis_entries"] += want.size
    if B.shape != want.shape or np.max(np.abs(B - want)) > 1e-11:
        res["violations"].append({"kind": "basis", "mech": "C17|A|basis-matrix|d%d" % d,
                                  "detail": "degree %d, N=%d, %s knots: basis matrix shape %s vs %s, max difference %.3g" % (
                                      d, N, case["knots"], B.shape, want.shape,
                                      np.max(np.abs(B - want)) if B.shape == want.shape else -1)})
        return res
    res["evals"] += 1
    if np.max(np.abs(B.sum(axis=0) - 1)) > 1e-11 or np.min(B) < -1e-13:
        res["violations"].append({"kind": "partition-of-unity", "mech": "C17|A|partition-of-unity",
                                  "detail": "column sums %s, min %g" % (C.short(B.sum(axis=0)), np.min(B))})
        return res
    coeff = rng.standard_normal((case["m"], N + d))
    if d >= 1:
        try:
            dc = np.array(ca.evalf(ca.MX(C.call("bspline_derivative", ms.bspline_derivative, ca.DM(coeff), XI, d))))
        except C.RockitRaised as e:
            res["violations"].append(C.exc_violation(ID, e, "A|der|d%d" % d))
            return res
        xs = np.sort(rng.uniform(xi[0], xi[-1], 12))
        got = spline_eval(xi, d - 1, dc, xs)
        want_d = spline_eval(xi, d, coeff, xs, nu=1)
        res["evals"] += 1
        res["counters"]["derivative_points"] += len(xs)
        sc = 1 + np.max(np.abs(want_d))
        if dc.shape != (case["m"], N + d - 1) or np.max(np.abs(got - want_d)) > 1e-9 * sc:
            res["violations"].append({"kind": "derivative", "mech": "C17|A|bspline_derivative|d%d" % d,
                                      "detail": "derivative coefficients give %s, scipy derivative %s" % (
                                          C.short(got[0][:5]), C.short(want_d[0][:5]))})
            return res
    try:
        g = np.array(ca.evalf(ca.MX(C.call("greville", ms.get_greville_points, XI, d)))).reshape(-1)
    except C.RockitRaised as e:
        res["violations"].append(C.exc_violation(ID, e, "A|greville|d%d" % d))
        return res
    gw = greville(xi, d)
    res["evals"] += 1
    res["counters"]["greville_points"] += len(gw)
    if len(g) != len(gw) or np.max(np.abs(g - gw)) > 1e-12 * (1 + np.max(np.abs(gw))):
        res["violations"].append({"kind": "greville", "mech": "C17|A|greville|d%d" % d,
                                  "detail": "greville points %s, knot averages %s" % (C.short(g), C.short(gw))})
    res["nontrivial"] = True
    res["sample"] = {"d": d, "N": N, "knots": C.short(xi), "points": len(pts), "basis_column_1": C.short(B[:, min(1, B.shape[1] - 1)])}
    return res


# ------------------------------------------------------------------------------------------------ part B
def build_chain_ocp(case):
    import casadi as ca
    import rockit
    from ..gen import build
    ocp = rockit.Ocp(t0=case["t0"], T=case["T"])
    sig = []          # (name, symbol, degree, dim, derivative_of_index or None)
    for ci, ch in enumerate(case["chains"]):
        L, dim = ch["len"], ch["dim"]
        if ch["via_order"] and L >= 2:
            top = ocp.control(dim, order=L - 1)
            syms = [top]
            for j in range(L - 1):
                syms.append(ocp.der(syms[-1]))
        else:
            syms = [ocp.state(dim) for _ in range(L - 1)] + [ocp.control(dim)]
            for j in range(L - 1):
                ocp.set_der(syms[j], syms[j + 1])
        for j, s in enumerate(syms):
            sig.append({"name": "c%d_%d" % (ci, j), "sym": s, "degree": L - 1 - j, "dim": dim,
                        "der_of": len(sig) - 1 if j > 0 else None, "chain": ci, "pos": j})
    bsig = []
    for bi, bv in enumerate(case["bvars"]):
        w = ocp.variable(bv["dim"], grid="bspline", order=bv["order"])
        bsig.append({"name": "w%d" % bi, "sym": w, "degree": bv["order"], "dim": bv["dim"]})
    # path constraints on the head of a chain (+ lower member), with refine
    cons = []
    for c in case["constraints"]:
        members = [s for s in sig if s["chain"] == c["chain"]]
        head = members[0]["sym"]
        low = members[min(1, len(members) - 1)]["sym"]
        e = c["coef"] * head[0] + (0.5 * low[0] if len(members) > 1 else 0)
        kw = {"refine": c["refine"]} if c["refine"] != 1 else {}
        ocp.subject_to(c["lb"] <= (e <= c["ub"]), **kw)
        cons.append({"members": members, "c": c})
    # something to minimise so that all coefficients are part of the NLP
    obj = 0
    for s in sig:
        if s["pos"] == 0 or True:
            obj = obj + ocp.sum(ca.sumsqr(s["sym"]), include_last=True)
    for s in bsig:
        obj = obj + ocp.sum(ca.sumsqr(s["sym"]), include_last=True)
    ocp.add_objective(obj)
    ocp.method(rockit.SplineMethod(N=case["N"], grid=build.make_grid(case["grid"])))
    ocp.solver("ipopt", {"ipopt.print_level": 0, "print_time": False})
    return ocp, sig, bsig, cons


def run_B(case):
    import casadi as ca
    from ..obs import nlp
    from ..ref import grids as G
    N, r = case["N"], case["refine"]
    layout = ",".join("%d%s%d" % (c["len"], "o" if c["via_order"] else "s", c["dim"]) for c in case["chains"])
    res = {"sig": "B|N%d|%s|%s|b%s|r%d" % (N, C.grid_tag(case["grid"]), layout,
                                          "".join(str(b["order"]) for b in case["bvars"]), r),
           "evals": 0, "violations": [], "counters": {"signals": 0, "spline_points": 0, "derivative_links": 0,
                                                      "constraint_rows": 0, "der_bspline": 0}}
    try:
        ocp, sig, bsig, cons = C.call("declare", build_chain_ocp, case)
        # derivatives of bspline variables must be requested before the transcription
        dersyms = []
        for s in bsig:
            cur = s["sym"]
            for nu in range(1, min(3, s["degree"]) + 1):
                cur = C.call("der(bspline)", ocp.der, cur)
                dersyms.append((s, nu, cur))
        view = C.call("transcribe", nlp.NlpView, ocp)
        outs, meta = [], []
        for s in sig + bsig:
            tg, cg = C.call("sample(gist)", ocp.sample, s["sym"], grid="gist")
            t1, v1 = C.call("sample(control)", ocp.sample, s["sym"], grid="control")
            tr, vr = C.call("sample(control,refine)", ocp.sample, s["sym"], grid="control", refine=r)
            outs += [ca.MX(tg), ca.MX(cg), ca.MX(t1), ca.MX(v1), ca.MX(tr), ca.MX(vr)]
            meta.append(s)
        # der() of bspline variables
        dermeta = []
        for (s, nu, cur) in dersyms:
            tt, vv = C.call("sample(der bspline)", ocp.sample, cur, grid="control", refine=r)
            outs += [ca.MX(tt), ca.MX(vv)]
            dermeta.append((s, nu))
        # 'gist' of a concatenation of the chains' bottoms (all of degree 0, possibly from chains of different length)
        bottoms = [s for s in sig if s["degree"] == 0]
        n_main = len(outs)
        if len(bottoms) >= 2:
            _, cat_g = C.call("sample(gist, concatenation)", ocp.sample, ca.vertcat(*[s["sym"] for s in bottoms]), grid="gist")
            outs.append(ca.MX(cat_g))
        # 'gist' of an affine image a*s + b of every signal: the coefficients are a*coeff + b
        aff = []
        for s in sig + bsig:
            a_, b_ = [-1.0, 3.0, 0.5, -4.0][len(aff) % 4], [0.0, -1.0, 2.0, 1.0][len(aff) % 4]
            _, ag = C.call("sample(gist, affine image)", ocp.sample, a_ * s["sym"] + b_, grid="gist")
            aff.append((s, a_, b_, len(outs)))
            outs.append(ca.MX(ag))
        F = ca.Function("s", [view.x, view.p], outs)
    except C.RockitRaised as e:
        res["violations"].append(C.exc_violation(ID, e, "B|%s" % C.grid_tag(case["grid"])))
        return res
    rng = np.random.default_rng(case["seed"])
    nrm = np.array(G.normalized(case["grid"], N))
    xi_phys = case["t0"] + case["T"] * nrm
    t_ref = np.concatenate([np.linspace(xi_phys[k], xi_phys[k + 1], r + 1)[:-1] for k in range(N)] + [xi_phys[-1:]])
    for it in range(2):
        w = view.random_point(rng, 1.0)
        vals = [np.array(v, dtype=float) for v in F(w, view.p0)]
        store = {}
        for j, s in enumerate(meta):
            tg, cg, t1, v1, tr, vr = vals[6 * j:6 * j + 6]
            tg, t1, tr = tg.reshape(-1), t1.reshape(-1), tr.reshape(-1)
            dim = s["dim"]
            cg = cg.reshape(dim, -1)
            d = cg.shape[1] - N
            res["counters"]["signals"] += 1
            res["evals"] += 1
            if d != s["degree"]:
                res["violations"].append({"kind": "degree", "mech": "C17|B|spline-degree",
                                          "detail": "%s: %d coefficients on the gist grid for N=%d, i.e. degree %d; the chain "
                                                    "position / declared order determines degree %d" % (
                                                        s["name"], cg.shape[1], N, d, s["degree"])})
                return res
            gw = case["t0"] + case["T"] * greville(list(nrm), d)
            res["evals"] += 1
            if len(tg) != len(gw) or np.max(np.abs(tg - gw)) > 1e-10 * (1 + np.max(np.abs(gw))):
                res["violations"].append({"kind": "gist-times", "mech": "C17|B|gist-times-not-greville",
                                          "detail": "%s (degree %d): gist times %s, Greville points %s" % (
                                              s["name"], d, C.short(tg), C.short(gw))})
                return res
            for tag, tt, vv, texp in (("control", t1, v1, xi_phys), ("control+refine%d" % r, tr, vr, t_ref)):
                vv = vv.reshape(dim, -1)
                res["evals"] += 2
                res["counters"]["spline_points"] += vv.shape[1]
                if len(tt) != len(texp) or np.max(np.abs(tt - texp)) > 1e-9 * (1 + np.max(np.abs(texp))):
                    res["violations"].append({
                        "kind": "sample-times", "mech": "C17|B|refined-time-vector|%s" % (
                            "uniform" if case["grid"]["cls"] == "Uniform" else "nonuniform"),
                        "detail": "%s on %s: time vector %s, the (refined) control grid is %s" % (
                            s["name"], tag, C.short(tt[:8]), C.short(texp[:8]))})
                    texp_use = texp
                else:
                    texp_use = tt
                want = spline_eval(list(xi_phys), d, cg, texp)
                if vv.shape != want.shape or np.max(np.abs(vv - want)) > 1e-8 * (1 + np.max(np.abs(want))):
                    res["violations"].append({
                        "kind": "not-the-spline", "mech": "C17|B|sample-not-coxdeboor|" + tag.split("+")[0],
                        "detail": "%s (degree %d) on %s: sampled %s, Cox-de Boor of the gist coefficients %s" % (
                            s["name"], d, tag, C.short(vv[0][:6]), C.short(want[0][:6]))})
                    return res
            store[s["name"]] = (d, cg, vr.reshape(dim, -1))
        if [v for v in res["violations"] if v["kind"] != "sample-times"]:
            return res
        if len(bottoms) >= 2:
            got = vals[n_main]
            want = np.vstack([store[s["name"]][1] for s in bottoms])
            got = got.reshape(want.shape) if got.size == want.size else got
            res["evals"] += 1
            res["counters"]["gist_concatenations"] = res["counters"].get("gist_concatenations", 0) + 1
            if got.shape != want.shape or np.max(np.abs(got - want)) > 1e-10 * (1 + np.max(np.abs(want))):
                res["violations"].append({
                    "kind": "gist-concatenation", "mech": "C17|B|gist-of-concatenation",
                    "detail": "sample(vertcat(bottoms of %d chains), grid='gist') = %s, the chains' own gist coefficients %s" % (
                        len(bottoms), C.short(np.asarray(got).reshape(-1)[:6]), C.short(want.reshape(-1)[:6]))})
                return res
        for s, a_, b_, pos_ in aff:
            want = a_ * np.asarray(store[s["name"]][1], dtype=float) + b_
            got = vals[pos_]
            got = got.reshape(want.shape) if got.size == want.size else got
            res["evals"] += 1
            res["counters"]["gist_affine_images"] = res["counters"].get("gist_affine_images", 0) + 1
            if got.shape != want.shape or np.max(np.abs(got - want)) > 1e-10 * (1 + np.max(np.abs(want))):
                res["violations"].append({
                    "kind": "gist-affine", "mech": "C17|B|gist-of-affine-image",
                    "detail": "sample(%g*%s%+g, grid='gist') = %s, %g*coefficients%+g = %s" % (
                        a_, s["name"], b_, C.short(np.asarray(got).reshape(-1)[:6]), a_, b_, C.short(want.reshape(-1)[:6]))})
                return res
        # declared derivative relations hold identically in time
        for s in sig:
            if s["der_of"] is None:
                continue
            parent = sig[s["der_of"]]
            dpar, cpar, _ = store[parent["name"]]
            _, _, vr = store[s["name"]]
            want = spline_eval(list(xi_phys), dpar, cpar, t_ref, nu=1)
            res["evals"] += 1
            res["counters"]["derivative_links"] += 1
            if np.max(np.abs(vr - want)) > 1e-7 * (1 + np.max(np.abs(want))):
                res["violations"].append({"kind": "chain-dynamics", "mech": "C17|B|chain-dynamics-not-identically",
                                          "detail": "%s should be d/dt %s: sampled %s, derivative of the spline %s" % (
                                              s["name"], parent["name"], C.short(vr[0][:6]), C.short(want[0][:6]))})
                return res
        off = 6 * len(meta)
        for j, (s, nu) in enumerate(dermeta):
            tt, vv = vals[off + 2 * j].reshape(-1), vals[off + 2 * j + 1].reshape(s["dim"], -1)
            d, cg, _ = store[s["name"]]
            want = spline_eval(list(xi_phys), d, cg, t_ref, nu=nu)
            res["evals"] += 1
            res["counters"]["der_bspline"] += 1
            if vv.shape != want.shape or np.max(np.abs(vv - want)) > 1e-7 * (1 + np.max(np.abs(want))):
                res["violations"].append({
                    "kind": "der-bspline", "mech": "C17|B|der-of-bspline-signal|nu%d" % nu,
                    "detail": "der^%d(%s) (order %d, T=%g): sampled %s, analytic derivative %s" % (
                        nu, s["name"], d, case["T"], C.short(vv[0][:6]), C.short(want[0][:6]))})
                return res
        # path constraints: one instance per (refined) grid point
        if cons:
            f, atoms = view.atoms(w)
            obs = [(a[0], a[1]) for a in atoms if a[0] == "ge"]
            exp = []
            for cc in cons:
                c = cc["c"]
                rr = c["refine"]
                tpts = np.concatenate([np.linspace(xi_phys[k], xi_phys[k + 1], rr + 1)[:-1] for k in range(N)] + [xi_phys[-1:]])
                mem = cc["members"]
                d0, c0, _ = store[mem[0]["name"]]
                e = c["coef"] * spline_eval(list(xi_phys), d0, c0, tpts)[0]
                if len(mem) > 1:
                    d1, c1, _ = store[mem[1]["name"]]
                    e = e + 0.5 * spline_eval(list(xi_phys), d1, c1, tpts)[0]
                for v_ in e:
                    exp.append(("ge", v_ - c["lb"]))
                    exp.append(("ge", c["ub"] - v_))
            un_e, un_o = nlp.match_multiset(exp, obs, scale=1 + max([abs(v) for _, v in exp] + [0]), rtol=1e-8)
            res["evals"] += 1
            res["counters"]["constraint_rows"] += len(obs)
            if un_e or un_o:
                res["violations"].append({
                    "kind": "path-constraint-rows", "mech": "C17|B|path-constraint-instances",
                    "detail": "declared path constraints with refine %s: %d expected slacks unmatched, %d NLP inequality "
                              "slacks unmatched (NLP has %d inequality slacks, expected %d)" % (
                                  [c["c"]["refine"] for c in cons], len(un_e), len(un_o), len(obs), len(exp))})
                return res
    if case.get("retrans") and not res["violations"]:
        # the horizon is changed after the transcription: refined samples move to the new instants
        T2, t02 = case["retrans"]
        try:
            C.call("set_T(transcribed)", ocp.set_T, T2)
            C.call("set_t0(transcribed)", ocp.set_t0, t02)
            view2 = C.call("transcribe(again)", nlp.NlpView, ocp)
            tr2, _ = C.call("sample(control,refine)", ocp.sample, sig[0]["sym"], grid="control", refine=r)
            F2 = ca.Function("t", [view2.x, view2.p], [ca.MX(tr2)])
            tt2 = np.array(F2(view2.x0, view2.p0), dtype=float).reshape(-1)
            xi2 = t02 + T2 * nrm
            want2 = np.concatenate([np.linspace(xi2[k], xi2[k + 1], r + 1)[:-1] for k in range(N)] + [xi2[-1:]])
            res["evals"] += 1
            res["counters"]["retranscriptions"] = 1
            if len(tt2) != len(want2) or np.max(np.abs(tt2 - want2)) > 1e-9 * (1 + np.max(np.abs(want2))):
                res["violations"].append({
                    "kind": "sample-times", "mech": "C17|B|refined-times-stale-after-horizon-edit",
                    "detail": "after set_T(%g), set_t0(%g) on the transcribed OCP the refined sample times are %s, the refined "
                              "control grid of the new horizon is %s" % (T2, t02, C.short(tt2[:6]), C.short(want2[:6]))})
        except C.RockitRaised as e:
            res["violations"].append(C.exc_violation(ID, e, "B|retranscription"))
    res["nontrivial"] = res["counters"]["spline_points"] > 0
    res["sample"] = {"N": N, "grid": case["grid"], "chains": layout, "refine": r, "T": case["T"], "t0": case["t0"]}
    return res


# ------------------------------------------------------------------------------------------------ part C
def run_C(case):
    import casadi as ca
    import rockit
    from ..gen import build
    from ..obs import nlp
    from ..ref import grids as G
    N, M, d, dim, r = case["N"], case["M"], case["order"], case["dim"], case["refine"]
    res = {"sig": "C|%s|N%dM%d|d%d|%s|%s" % (case["cls"], N, M, d, C.grid_tag(case["grid"]), "p" if case["param"] else "v"),
           "evals": 0, "violations": [], "counters": {"spline_space_points": 0}}
    try:
        ocp = rockit.Ocp(t0=case["t0"], T=case["T"])
        x = ocp.state()
        u = ocp.control()
        if case["param"]:
            s = ocp.parameter(dim, grid="bspline", order=d)
            ocp.set_value(s, ca.DM(np.random.default_rng(case["seed"]).standard_normal((dim, N + d))))
        else:
            s = ocp.variable(dim, grid="bspline", order=d)
        ocp.set_der(x, u + s[0])
        ocp.add_objective(ocp.sum(ca.sumsqr(s) + u ** 2, include_last=True))
        ocp.add_objective(ocp.at_tf(x ** 2))
        ds = None
        if d >= 1 and case.get("with_der", True):
            # der() of the signal, requested before the transcription and used in the problem
            ds = C.call("der(bspline)", ocp.der, s)
            ocp.add_objective(0.1 * ocp.sum(ca.sumsqr(ds)))
        if case["cls"] == "MS":
            ocp.method(rockit.MultipleShooting(N=N, M=M, intg="rk", grid=build.make_grid(case["grid"])))
        else:
            ocp.method(rockit.DirectCollocation(N=N, M=M, degree=3, grid=build.make_grid(case["grid"])))
        ocp.solver("ipopt", {"ipopt.print_level": 0, "print_time": False})
        view = C.call("transcribe", nlp.NlpView, ocp)
        outs = []
        # (unrefined grid='integrator' / 'integrator_roots' leave the signal symbol unsubstituted -- a loud error when
        #  the sample is evaluated; the statement speaks of the control grid and refinements)
        tags = [("control", {}), ("integrator", {"refine": 1}), ("integrator", {"refine": r})]
        for g, kw in tags:
            tt, vv = C.call("sample:%s" % g, ocp.sample, s, grid=g, **kw)
            outs += [ca.MX(tt), ca.MX(vv)]
        if ds is not None:
            for g, kw in tags:
                tt, vv = C.call("sample(der):%s" % g, ocp.sample, ds, grid=g, **kw)
                outs += [ca.MX(tt), ca.MX(vv)]
        F = ca.Function("s", [view.x, view.p], outs)
    except C.RockitRaised as e:
        res["violations"].append(C.exc_violation(ID, e, "C|%s|d%d" % (case["cls"], d)))
        return res
    rng = np.random.default_rng(case["seed"])
    nrm = np.array(G.normalized(case["grid"], N))
    xi_phys = case["t0"] + case["T"] * nrm
    for it in range(2):
        w = view.random_point(rng, 1.0)
        vals = [np.array(v, dtype=float) for v in F(w, view.p0)]
        T_all = np.concatenate([vals[2 * j].reshape(-1) for j in range(len(tags))])
        V_all = np.concatenate([vals[2 * j + 1].reshape(dim, -1) for j in range(len(tags))], axis=1)
        # all samples must be values of ONE spline of degree d on the control-grid knots
        # snap times that are knots up to round-off onto the knots (a degree-0 spline is discontinuous there)
        T_snap = T_all.copy()
        for kn in xi_phys:
            T_snap[np.abs(T_snap - kn) < 1e-9 * (1 + abs(kn))] = kn
        A = design(list(xi_phys), d, np.clip(T_snap, xi_phys[0], xi_phys[-1])).T
        worst = 0.0
        for row in V_all:
            coef, *_ = np.linalg.lstsq(A, row, rcond=None)
            worst = max(worst, float(np.max(np.abs(A @ coef - row))))
        res["evals"] += 1
        res["counters"]["spline_space_points"] += V_all.shape[1]
        if worst > 1e-8 * (1 + np.max(np.abs(V_all))):
            res["violations"].append({
                "kind": "not-in-spline-space", "mech": "C17|C|samples-not-one-spline|%s" % case["cls"],
                "detail": "bspline %s of order %d under %s: samples on control / integrator / refined%s grids are not "
                          "values of one degree-%d spline on the control-grid knots (residual %.3g)" % (
                              "parameter" if case["param"] else "variable", d, case["cls"],
                              " / root" if case["cls"] == "DC" else "", d, worst)})
            return res
        if ds is not None and np.linalg.matrix_rank(A) < A.shape[1]:
            # too few distinct sample times to identify the N+d coefficients: the derivative is not determined
            res["counters"]["der_underdetermined"] = res["counters"].get("der_underdetermined", 0) + 1
        elif ds is not None:
            # der(s) sampled anywhere = analytic derivative (physical time) of that one spline
            off = 2 * len(tags)
            for j, (g, kw) in enumerate(tags):
                td = vals[off + 2 * j].reshape(-1)
                vd = vals[off + 2 * j + 1].reshape(dim, -1)
                inner = np.array([not np.any(np.abs(t_ - xi_phys) < 1e-9 * (1 + abs(t_))) for t_ in td]) if d == 1 \
                    else np.ones(len(td), dtype=bool)
                for r_i, row in enumerate(V_all):
                    coef, *_ = np.linalg.lstsq(A, row, rcond=None)
                    want = spline_eval(list(xi_phys), d, coef.reshape(1, -1), np.clip(td, xi_phys[0], xi_phys[-1]), nu=1)[0]
                    res["evals"] += 1
                    res["counters"]["der_points"] = res["counters"].get("der_points", 0) + int(np.sum(inner))
                    if vd.shape[1] != len(td) or (np.any(inner) and np.max(np.abs(vd[r_i][inner] - want[inner])) >
                                                   1e-7 * (1 + np.max(np.abs(want)))):
                        res["violations"].append({
                            "kind": "der-bspline", "mech": "C17|C|der-of-bspline-signal|%s" % case["cls"],
                            "detail": "der(bspline %s, order %d) under %s on grid %s%s: sampled %s, analytic derivative of "
                                      "the sampled spline %s" % ("parameter" if case["param"] else "variable", d, case["cls"],
                                                                 g, kw, C.short(vd[r_i][:5]), C.short(want[:5]))})
                        return res
    res["nontrivial"] = True
    res["sample"] = {"method": case["cls"], "order": d, "N": N, "points": int(len(T_all))}
    return res


# ------------------------------------------------------------------------------------------------ part D
def run_D(case):
    import casadi as ca
    import rockit
    from ..gen import build
    res = {"sig": "D|N%d|len%d|%s" % (case["N"], case["len"], C.grid_tag(case["grid"])), "evals": 0, "violations": [],
           "counters": {"solves": 0}}
    sols = {}
    for name in ("spline", "ms"):
        try:
            ocp = rockit.Ocp(T=case["T"])
            L = case["len"]
            xs = [ocp.state() for _ in range(L - 1)]
            u = ocp.control()
            chain = xs + [u]
            for j in range(L - 1):
                ocp.set_der(chain[j], chain[j + 1])
            ocp.subject_to(ocp.at_t0(xs[0]) == 0)
            for s_ in xs[1:]:
                ocp.subject_to(ocp.at_t0(s_) == 0)
            ocp.subject_to(ocp.at_tf(xs[0]) == case["target"])
            ocp.subject_to(-case["umax"] <= (u <= case["umax"]))
            if case.get("integral"):
                # the same running cost written as an integral (u is piecewise constant: both are T/N-weighted sums on a
                # uniform grid; the integral is what a user of the shooting methods writes)
                ocp.add_objective(ocp.integral(u ** 2) + 0.1 * ocp.sum(xs[0] ** 2, include_last=True))
            else:
                ocp.add_objective(ocp.sum(u ** 2) + 0.1 * ocp.sum(xs[0] ** 2, include_last=True))
            if name == "spline":
                ocp.method(rockit.SplineMethod(N=case["N"], grid=build.make_grid(case["grid"])))
            else:
                ocp.method(rockit.MultipleShooting(N=case["N"], M=1, intg="rk", grid=build.make_grid(case["grid"])))
            ocp.solver("ipopt", {"ipopt.print_level": 0, "print_time": False, "ipopt.tol": 1e-10})
            sol = ocp.solve()
            res["counters"]["solves"] += 1
            _, xv = sol.sample(xs[0], grid="control")
            _, uv = sol.sample(u, grid="control")
            sols[name] = (float(sol.value(ocp.objective)), np.array(xv).reshape(-1), np.array(uv).reshape(-1)[:-1])
            if case.get("integral") and name == "spline":
                # mechanism check: the integral term of the SplineMethod objective against a quadrature of the sampled u
                tt_, uu_ = sol.sample(u, grid="control")
                tt_, uu_ = np.array(tt_).reshape(-1), np.array(uu_).reshape(-1)
                quad_ = float(np.sum(np.diff(tt_) * uu_[:-1] ** 2))
                term_ = float(sol.value(ocp.integral(u ** 2))) if False else sols[name][0] - 0.1 * float(np.sum(sols[name][1] ** 2))
                res["evals"] += 1
                if quad_ > 1e-6 and abs(term_) < 1e-9 * (1 + quad_):
                    res["violations"].append({
                        "kind": "integral-zero", "mech": "C17|D|integral-term-silently-zero-under-SplineMethod",
                        "detail": "SplineMethod: the objective term ocp.integral(u**2) evaluates to %.3g at the returned solution "
                                  "while the integral of the sampled u**2 is %.6g (no error raised, the solver minimises the "
                                  "remaining terms only)" % (term_, quad_)})
                    return res
        except Exception as e:  # noqa
            res["status"] = "inconclusive"
            res["note"] = "%s solve failed: %r" % (name, e)
            return res
    a, b = sols["spline"], sols["ms"]
    res["evals"] += 3
    if abs(a[0] - b[0]) > 1e-6 * (1 + abs(b[0])) or np.max(np.abs(a[1] - b[1])) > 1e-5 or np.max(np.abs(a[2] - b[2])) > 1e-4:
        res["violations"].append({
            "kind": "optimal-trajectories-differ", "mech": "C17|D|spline-vs-shooting-optimum",
            "detail": "cost %.10g (SplineMethod) vs %.10g (MultipleShooting rk); max state difference %.3g, control %.3g" % (
                a[0], b[0], np.max(np.abs(a[1] - b[1])), np.max(np.abs(a[2] - b[2])))})
    res["nontrivial"] = True
    res["sample"] = {"cost_spline": a[0], "cost_ms": b[0], "x_spline": C.short(a[1]), "x_ms": C.short(b[1])}
    return res


# ------------------------------------------------------------------------------------------------ part E
def build_inf_ocp(case):
    import casadi as ca
    import rockit
    from ..gen import build
    ocp = rockit.Ocp(t0=case["t0"], T=case["T"])
    L = case["len"]
    chain = [ocp.state() for _ in range(L - 1)] + [ocp.control()]
    for j in range(L - 1):
        ocp.set_der(chain[j], chain[j + 1])
    chain2 = [ocp.state() for _ in range(L - 1)] + [ocp.control()]      # a second chain of the same length
    for j in range(L - 1):
        ocp.set_der(chain2[j], chain2[j + 1])
    w = ocp.variable(grid="bspline", order=case["order"])
    exprs = []
    for c in case["cons"]:
        if c["kind"] == "signal":
            e = c["alpha"] * w + c["beta"]
        elif c["kind"] == "dsignal":
            e = c["alpha"] * ocp.der(w) + c["beta"]
        elif c["kind"] == "state_pair":
            e = c["alpha"] * chain[c["level"]] + c["gamma"] * chain2[c["level"]] + c["beta"]
        elif c["kind"] == "state_mix":
            e = c["alpha"] * chain[c["level"]] + c["gamma"] * chain[c["level2"]] + c["beta"]
        else:
            e = c["alpha"] * chain[c["level"]] + c["beta"]
        lb = -ca.inf if c["lb"] is None else c["lb"]
        ub = ca.inf if c["ub"] is None else c["ub"]
        if c["lb"] is None:
            ocp.subject_to(e <= ub, grid="inf")
        elif c["ub"] is None:
            ocp.subject_to(e >= lb, grid="inf")
        else:
            ocp.subject_to(lb <= (e <= ub), grid="inf")
        exprs.append(e)
    ocp.add_objective(ocp.sum(sum(ca.sumsqr(x_) for x_ in chain + chain2) + ca.sumsqr(w), include_last=True))
    ocp.method(rockit.SplineMethod(N=case["N"], grid=build.make_grid(case["grid"])))
    ocp.solver("ipopt", {"ipopt.print_level": 0, "print_time": False})
    return ocp, exprs


def run_E(case):
    """grid='inf' under SplineMethod: the NLP rows must be sufficient for the declared bound at every time.  The whole
    NLP is linear here, so 'every NLP point satisfying the rows' is decided by linear programmes: the largest /
    smallest value the refined sample of the constrained expression can take subject to all rows."""
    import casadi as ca
    from scipy import optimize
    from ..obs import nlp
    N = case["N"]
    kinds = "+".join(sorted(c["kind"] + ("1" if (c["lb"] is None or c["ub"] is None) else "2") for c in case["cons"]))
    res = {"sig": "E|N%d|%s|L%d|o%d|%s" % (N, C.grid_tag(case["grid"]), case["len"], case["order"], kinds),
           "evals": 0, "violations": [], "counters": {"inf_constraints": 0, "lp_solved": 0, "inf_rows": 0, "spline_points": 0}}
    try:
        ocp, exprs = C.call("declare", build_inf_ocp, case)
        view = C.call("transcribe", nlp.NlpView, ocp)
        outs = [ca.MX(C.call("sample(refine)", ocp.sample, e, grid="control", refine=case["refine"])[1]) for e in exprs]
        S = ca.Function("s", [view.x, view.p], [ca.vertcat(*[ca.vec(o) for o in outs])])
        JS = ca.Function("js", [view.x, view.p], [ca.jacobian(ca.vertcat(*[ca.vec(o) for o in outs]), view.x)])
        JG = ca.Function("jg", [view.x, view.p], [ca.jacobian(view.adv.g, view.x)])
    except C.RockitRaised as e:
        if "state_mix" in kinds and e.phase == "transcribe" and "different spline degree" in str(e.exc):
            # no coefficient-wise certificate exists for such a row: an explicit rejection is the documented outcome
            res["counters"]["rejected"] = 1
            res["evals"] += 1
            res["nontrivial"] = True
            res["sample"] = {"rejected": str(e.exc)[:120], "cons": case["cons"]}
            return res
        res["violations"].append(C.exc_violation(ID, e, "E|" + kinds))
        return res
    rng = np.random.default_rng(case["seed"])
    nx = view.nx
    z = np.zeros(nx)
    w1 = rng.standard_normal(nx)
    E0 = np.array(JS(z, view.p0).full())
    e0 = np.array(S(z, view.p0)).reshape(-1)
    G0 = np.array(JG(z, view.p0).full())
    _, g0, lbg, ubg = view.eval(z)
    _, g1, _, _ = view.eval(w1)
    s1 = np.array(S(w1, view.p0)).reshape(-1)
    if np.max(np.abs(G0 @ w1 + g0 - g1)) > 1e-9 * (1 + np.max(np.abs(g1))) or \
            np.max(np.abs(E0 @ w1 + e0 - s1)) > 1e-9 * (1 + np.max(np.abs(s1))):
        res["status"] = "inconclusive"
        res["note"] = "NLP rows or samples not affine in the decision variables"
        return res
    Aub, bub, Aeq, beq = [], [], [], []
    for r in range(view.ng):
        if np.isfinite(lbg[r]) and lbg[r] == ubg[r]:
            Aeq.append(G0[r])
            beq.append(lbg[r] - g0[r])
            continue
        if np.isfinite(ubg[r]):
            Aub.append(G0[r])
            bub.append(ubg[r] - g0[r])
            res["counters"]["inf_rows"] += 1
        if np.isfinite(lbg[r]):
            Aub.append(-G0[r])
            bub.append(-(lbg[r] - g0[r]))
            res["counters"]["inf_rows"] += 1
    npts = outs[0].numel()
    o = 0
    BOX = 1e3
    for ci, c in enumerate(case["cons"]):
        res["counters"]["inf_constraints"] += 1
        pts = sorted(set([0, npts - 1] + [int(i) for i in rng.integers(0, npts, size=6)]))
        for sense, bound, name in ((-1.0, c["ub"], "upper"), (1.0, c["lb"], "lower")):
            if bound is None:
                continue
            for i in pts:
                row = E0[o + i]
                r = optimize.linprog(sense * row, A_ub=np.array(Aub) if Aub else None, b_ub=np.array(bub) if Aub else None,
                                     A_eq=np.array(Aeq) if Aeq else None, b_eq=np.array(beq) if Aeq else None,
                                     bounds=[(-BOX, BOX)] * nx, method="highs")
                res["counters"]["lp_solved"] += 1
                res["evals"] += 1
                if r.status != 0:
                    continue
                res["counters"]["spline_points"] += 1
                val = float(row @ r.x + e0[o + i])
                excess = (val - bound) if sense < 0 else (bound - val)
                if excess > 1e-6 * (1 + abs(bound)):
                    res["violations"].append({
                        "kind": "inf-not-sufficient", "mech": "C17|E|inf-rows-not-sufficient|%s|%s" % (c["kind"], name),
                        "detail": "SplineMethod grid='inf' constraint %d (%s, alpha=%g, beta=%g, bounds [%s, %s]): a point "
                                  "satisfying every NLP row has the constrained expression at refined sample %d of %d equal "
                                  "to %.6g, beyond the %s bound by %.3g" % (ci, c["kind"], c["alpha"], c["beta"], c["lb"],
                                                                            c["ub"], i, npts, val, name, excess)})
                    break
            if res["violations"]:
                break
        if res["violations"]:
            break
        o += npts
    res["nontrivial"] = res["counters"]["spline_points"] > 0
    res["sample"] = {"N": N, "grid": case["grid"], "cons": case["cons"], "rows": int(view.ng)}
    return res


# ------------------------------------------------------------------------------------------------ part F
F_KINDS = ["chain", "const-term", "param-term", "zero-derivative", "scaled-link", "cross-term", "shared-control"]


def run_F(case):
    """SplineMethod on systems that are (or are not quite) integrator chains: whatever is accepted must have its
    declared right-hand sides hold identically in time (analytic derivative of the sampled spline); otherwise the
    problem has to be rejected."""
    import casadi as ca
    import rockit
    from ..gen import build
    from ..obs import nlp
    from ..ref import grids as G
    N, r, kind = case["N"], case["refine"], case["kind"]
    res = {"sig": "F|%s|N%d|%s|L%d" % (kind, N, C.grid_tag(case["grid"]), case["len"]), "evals": 0, "violations": [],
           "counters": {"accepted": 0, "rejected": 0, "derivative_links": 0, "spline_points": 0}}
    L = case["len"]
    ocp = rockit.Ocp(t0=case["t0"], T=case["T"])
    xs = [ocp.state() for _ in range(L)]
    u = ocp.control()
    u2 = ocp.control()
    p = ocp.parameter()
    ocp.set_value(p, case["pval"])
    rhs = [xs[j + 1] if j + 1 < L else u for j in range(L)]
    j = case["where"] % L
    c = case["c"]
    if kind == "const-term":
        rhs[j] = rhs[j] + c
    elif kind == "param-term":
        rhs[j] = rhs[j] + p
    elif kind == "zero-derivative":
        rhs[j] = 0 * rhs[j]
    elif kind == "scaled-link":
        rhs[j] = c * rhs[j]
    elif kind == "cross-term":
        rhs[j] = rhs[j] + c * u2
    elif kind == "shared-control":
        rhs[j] = u
    for x_, r_ in zip(xs, rhs):
        ocp.set_der(x_, r_)
    ocp.add_objective(ocp.sum(sum(ca.sumsqr(x_) for x_ in xs) + u ** 2 + u2 ** 2, include_last=True))
    ocp.method(rockit.SplineMethod(N=N, grid=build.make_grid(case["grid"])))
    ocp.solver("ipopt", {"ipopt.print_level": 0, "print_time": False})
    try:
        view = nlp.NlpView(ocp)
        outs = []
        for x_, r_ in zip(xs, rhs):
            tg, cg = ocp.sample(x_, grid="gist")
            tr, vr = ocp.sample(r_ if isinstance(r_, ca.MX) else ca.MX(r_), grid="control", refine=r)
            outs += [ca.MX(cg), ca.MX(tr), ca.MX(vr)]
        F = ca.Function("s", [view.x, view.p], outs)
    except Exception as e:  # noqa  -- a rejection, in whatever form, is an acceptable outcome for a non-chain
        if kind == "chain":
            res["violations"].append(C.exc_violation(ID, C.RockitRaised("transcribe", e), "F|chain"))
            return res
        res["counters"]["rejected"] += 1
        res["evals"] += 1
        res["nontrivial"] = True
        res["sample"] = {"kind": kind, "outcome": "rejected: " + str(e).strip().split("\n")[0][:100]}
        return res
    res["counters"]["accepted"] += 1
    rng = np.random.default_rng(case["seed"])
    nrm = np.array(G.normalized(case["grid"], N))
    xi_phys = case["t0"] + case["T"] * nrm
    for it in range(2):
        w = view.random_point(rng, 1.0)
        vals = [np.array(v, dtype=float) for v in F(w, view.p0)]
        for jx in range(L):
            cg, tr, vr = vals[3 * jx:3 * jx + 3]
            cg = cg.reshape(1, -1)
            d = cg.shape[1] - N
            tr, vr = tr.reshape(-1), vr.reshape(-1)
            if d < 1:
                # a piecewise-constant signal has a derivative only if it does not jump
                want = np.zeros_like(tr)
                res["evals"] += 1
                if np.max(cg) - np.min(cg) > 1e-9 * (1 + np.max(np.abs(cg))):
                    res["violations"].append({
                        "kind": "dynamics-not-identically", "mech": "C17|F|accepted-but-dynamics-do-not-hold|" + kind,
                        "detail": "SplineMethod accepted a right-hand side for x%d (%s) but represents x%d by a piecewise "
                                  "constant signal with jumps (coefficients %s): no derivative relation can hold" % (
                                      jx, kind, jx, C.short(cg[0][:5]))})
                    return res
            else:
                want = spline_eval(list(xi_phys), d, cg, tr, nu=1)[0]
            res["evals"] += 1
            res["counters"]["derivative_links"] += 1
            res["counters"]["spline_points"] += len(tr)
            # interior points only when the derivative is discontinuous at knots (degree 1)
            sel = np.ones(len(tr), dtype=bool)
            if d <= 1:
                sel = np.array([not np.any(np.isclose(t_, xi_phys)) for t_ in tr])
            if np.any(sel) and np.max(np.abs(vr[sel] - want[sel])) > 1e-7 * (1 + np.max(np.abs(want))):
                k_ = int(np.argmax(np.abs(vr - want) * sel))
                res["violations"].append({
                    "kind": "dynamics-not-identically", "mech": "C17|F|accepted-but-dynamics-do-not-hold|" + kind,
                    "detail": "SplineMethod accepted der(x%d) = %s (%s, c=%g) but at t=%.4g the derivative of the sampled "
                              "spline is %.6g while the declared right-hand side evaluates to %.6g" % (
                                  jx, "chain rhs with perturbation", kind, c, tr[k_], want[k_], vr[k_])})
                return res
    res["nontrivial"] = True
    res["sample"] = {"kind": kind, "outcome": "accepted", "N": N, "len": L}
    return res


# ------------------------------------------------------------------------------------------------ part G
def run_G(case):
    """B-spline parameters / variables inside the right-hand side under DirectCollocation, mixed with ordinary and
    per-interval parameters and variables: every collocation row must be the collocation defect with the spline
    evaluated (Cox-de Boor on the gist coefficients) at the collocation time and every other quantity at its own value."""
    import casadi as ca
    import rockit
    from ..gen import build
    from ..obs import nlp
    from ..ref import grids as G, colloc
    N, M, d, sch = case["N"], case["M"], case["degree"], case["scheme"]
    use = case["use"]
    res = {"sig": "G|DC-%s%d|N%dM%d|%s|%s" % (sch[0], d, N, M, C.grid_tag(case["grid"]), "+".join(sorted(k for k in use if use[k]))),
           "evals": 0, "violations": [], "counters": {"collocation_rows": 0, "spline_points": 0}}
    wt = case["weights"]
    rng = np.random.default_rng(case["seed"])
    try:
        ocp = rockit.Ocp(t0=case["t0"], T=case["T"])
        x = ocp.state()
        u = ocp.control()
        terms = {}
        syms = {}
        # declaration order is part of the case: the ODE argument order must not depend on it
        for kind in case["order"]:
            if not use[kind]:
                continue
            if kind == "bpar":
                sy = ocp.parameter(grid="bspline", order=case["bp_order"])
                ocp.set_value(sy, ca.DM(np.array(case["bp_coef"]).reshape(1, -1)))
            elif kind == "bvar":
                sy = ocp.variable(grid="bspline", order=case["bv_order"])
            elif kind == "var":
                sy = ocp.variable()
            elif kind == "par":
                sy = ocp.parameter()
                ocp.set_value(sy, case["p_val"])
            elif kind == "parc":
                sy = ocp.parameter(grid="control")
                ocp.set_value(sy, ca.DM(np.array(case["pc_val"]).reshape(1, -1)))
            elif kind == "varc":
                sy = ocp.variable(grid="control")
            syms[kind] = sy
        rhs = wt["x"] * x + wt["u"] * u
        for kind, sy in syms.items():
            rhs = rhs + wt[kind] * sy
        ocp.set_der(x, rhs)
        ocp.add_objective(ocp.sum(u ** 2 + sum(ca.sumsqr(sy) for k_, sy in syms.items() if k_ in ("bvar", "var", "varc")),
                                  include_last=False) + ocp.at_tf(x) ** 2)
        # a state-free integrand built from the B-spline signals (and the control): collocation quadrature
        sigs_q = [sy for k_, sy in syms.items() if k_ in ("bpar", "bvar")]
        ocp.add_objective(ocp.integral(sum((q_ - 0.3 * u) ** 2 for q_ in sigs_q)))
        ocp.method(rockit.DirectCollocation(N=N, M=M, degree=d, scheme=sch, grid=build.make_grid(case["grid"])))
        ocp.solver("ipopt", {"ipopt.print_level": 0, "print_time": False})
        view = C.call("transcribe", nlp.NlpView, ocp)
        outs = [C.call("sample", ocp.sample, x, grid="integrator")[1], C.call("sample", ocp.sample, x, grid="integrator_roots")[1],
                C.call("sample", ocp.sample, u, grid="control")[1], C.call("sample", ocp.sample, ocp.t, grid="control")[1]]
        names = ["xi", "xr", "uc", "tc"]
        for kind, sy in syms.items():
            if kind == "bvar":
                # no 'gist' grid under DirectCollocation: the coefficients are recovered from refined samples
                # (part C establishes that those lie in the spline space)
                outs.append(C.call("sample(refine)", ocp.sample, sy, grid="integrator", refine=case["bv_order"] + 2)[1])
            elif kind == "bpar":
                outs.append(ca.DM(np.array(case["bp_coef"]).reshape(1, -1)))
            elif kind in ("parc", "varc"):
                outs.append(C.call("sample", ocp.sample, sy, grid="control")[1])
            else:
                outs.append(C.call("value", ocp.value, sy))
            names.append(kind)
        F = ca.Function("rb", [view.x, view.p], [ca.MX(o) for o in outs])
    except C.RockitRaised as e:
        res["violations"].append(C.exc_violation(ID, e, "G"))
        return res
    tau = colloc.points(d, sch)
    Cm, Dm, Bw = colloc.coeffs(d, sch)
    nrm = np.array(G.normalized(case["grid"], N))
    for it in range(3):
        w = view.random_point(rng, 1.0)
        vals = {n: np.array(v, dtype=float) for n, v in zip(names, F(w, view.p0))}
        xi, xr, uc, tc = vals["xi"].reshape(-1), vals["xr"].reshape(-1), vals["uc"].reshape(-1), vals["tc"].reshape(-1)
        if "bvar" in syms:
            R_ = case["bv_order"] + 2
            tt = np.concatenate([np.linspace(tc[k], tc[k + 1], M * R_ + 1)[:-1] for k in range(N)] + [tc[-1:]])
            Bm = design(list(tc), case["bv_order"], tt)
            sol_, *_ = np.linalg.lstsq(Bm.T, vals["bvar"].reshape(-1), rcond=None)
            if np.max(np.abs(Bm.T @ sol_ - vals["bvar"].reshape(-1))) > 1e-8 * (1 + np.max(np.abs(sol_))):
                res["status"] = "inconclusive"
                res["note"] = "bspline variable samples are not in the spline space (subject of part C)"
                return res
            vals["bvar"] = sol_.reshape(1, -1)
        exp = []
        quad = 0.0
        for k in range(N):
            h = (tc[k + 1] - tc[k]) / M
            for i in range(M):
                idx = k * M + i
                nodes = [xi[idx]] + [xr[idx * d + j] for j in range(d)]
                for j in range(d):
                    t_j = tc[k] + (i + tau[j]) * h
                    f = wt["x"] * nodes[j + 1] + wt["u"] * uc[k]
                    sig_here = {}
                    for kind in syms:
                        if kind in ("bpar", "bvar"):
                            cg = vals[kind].reshape(1, -1)
                            dg = cg.shape[1] - N
                            if dg == 0:
                                # piecewise constant: a collocation time on a knot belongs to the interval it closes
                                sv = float(cg[0][k])
                            else:
                                # (a collocation time on the last knot may exceed it by one ulp: outside the spline's support)
                                sv = float(spline_eval(list(tc), dg, cg, np.array([min(max(t_j, tc[0]), tc[-1])]))[0][0])
                            f += wt[kind] * sv
                            sig_here[kind] = sv
                            res["counters"]["spline_points"] += 1
                        elif kind in ("parc", "varc"):
                            f += wt[kind] * float(vals[kind].reshape(-1)[k])
                        else:
                            f += wt[kind] * float(vals[kind].reshape(-1)[0])
                    pidot = sum(Cm[r][j] * nodes[r] for r in range(d + 1)) / h
                    exp.append(("eq", abs(pidot - f)))
                    quad += h * Bw[j] * sum((sv_ - 0.3 * uc[k]) ** 2 for sv_ in sig_here.values())
                x_next = xi[idx + 1]
                exp.append(("eq", abs(sum(Dm[r] * nodes[r] for r in range(d + 1)) - x_next)))
        f_nlp, atoms = view.atoms(w)
        # objective: sum over the intervals + Mayer term + collocation quadrature of the signal integrand
        f_ref = float(xi[-1]) ** 2 + quad
        for k in range(N):
            f_ref += uc[k] ** 2
            for kind in syms:
                if kind == "var":
                    f_ref += float(vals[kind].reshape(-1)[0]) ** 2
                elif kind == "varc":
                    f_ref += float(vals[kind].reshape(-1)[k]) ** 2
                elif kind == "bvar":
                    cg = vals[kind].reshape(1, -1)
                    dg = cg.shape[1] - N
                    f_ref += (float(cg[0][k]) if dg == 0 else float(spline_eval(list(tc), dg, cg, np.array([tc[k]]))[0][0])) ** 2
        res["evals"] += 1
        if abs(f_nlp - f_ref) > 1e-8 * (1 + abs(f_ref)):
            res["violations"].append({
                "kind": "objective-with-signals", "mech": "C17|G|objective-with-bspline-signals",
                "detail": "NLP objective %.12g, sum terms + collocation quadrature of the B-spline integrand %.12g (kinds %s)" % (
                    f_nlp, f_ref, sorted(syms))})
            return res
        obs = [(a[0], a[1]) for a in atoms if a[0] == "eq"]
        sc = 1 + max([v for _, v in exp] + [0.0])
        un_e, un_o = nlp.match_multiset(exp, obs, scale=sc, rtol=1e-8)
        res["evals"] += 1
        res["counters"]["collocation_rows"] += len(exp)
        if un_e or un_o:
            res["violations"].append({
                "kind": "collocation-rows", "mech": "C17|G|collocation-rows-with-bspline-signals|" + "+".join(sorted(syms)),
                "detail": "declaration order %s, weights %s: %d of %d reference residuals unmatched (e.g. %s), %d NLP "
                          "equality residuals unmatched (e.g. %s)" % (
                              [k for k in case["order"] if use[k]], {k: wt[k] for k in syms}, len(un_e), len(exp),
                              C.short([exp[i][1] for i in un_e][:3]), len(un_o), C.short([obs[i][1] for i in un_o][:3]))})
            return res
    res["nontrivial"] = res["counters"]["spline_points"] > 0
    res["sample"] = {"N": N, "M": M, "degree": d, "scheme": sch, "kinds": sorted(syms), "order": case["order"]}
    return res


def run_case(case):
    return {"A": run_A, "B": run_B, "C": run_C, "D": run_D, "E": run_E, "F": run_F, "G": run_G}[case["part"]](case)
