"""C04 -- every constraint is imposed exactly where declared, and nothing else is."""
import numpy as np

from ..gen import ocpgen
from . import common as C

ID = "C04"
LEVEL = "exploration"
RULE = ("Random OCP specifications with 3-8 declared constraints (equalities, one- and two-sided inequalities, vector "
        "valued, mixing states, controls, algebraics, time, per-interval and global parameters/variables, parametric "
        "bounds, at_t0/at_tf combinations, next/prev/offset operands up to beyond N, all include_first/include_last "
        "combinations, grid in {default, control, integrator, integrator_roots}) x every method x N, M, degree x grid "
        "class.  Every declared constraint carries a unique id through the public meta= argument; after transcription "
        "each NLP row is attributed to its id.  At K random decision vectors the multiset of slacks of the rows of each "
        "id must equal the instances prescribed by the statement (reference model), every system row must be a dynamic "
        "row (matched against the reference defects) or involve time-grid variables only, and ocp.jacobian() must have "
        "one row per NLP row.  Unplaceable constraints (integrator_roots under shooting, constant-false) must raise. "
        "non-trivial = at least one declared constraint compared; distinct = configuration signature x constraint "
        "kinds.")
ASSUMPTIONS = ["Opti meta/user_dict row attribution", "reference instance enumeration follows the property statement",
               "values at integrator points of shooting methods come from the reference recursion"]
ANCHORS = ["stage:Stage.subject_to", "sampling_method:SamplingMethod.eval_at_control",
           "sampling_method:SamplingMethod.add_constraints_after"]
CASE_LIMIT = {"quick": 120, "thorough": 300}

PROFILE = {"methods": ["MS", "SS", "DC"], "alg": 0.4,
           "grids": ["uniform", "geometric", "function", "free", "uniform_loc", "geometric_loc"],
           "quad_states": 0.0}


def con_kinds(spec):
    from ..gen import expr as E
    out = []
    for c in spec["constraints"]:
        nodes = []
        for fld in ("lhs", "rhs", "lb", "ub"):
            nodes.extend(c.get(fld, []) or [])
        off = any(E.uses(n, "off") for n in nodes)
        bnd = any(E.uses(n, "at_t0", "at_tf") for n in nodes)
        out.append("%s%s%s%s%s" % (c["form"][0], (c.get("grid") or "d")[0] if not bnd else "b", "o" if off else "",
                                   "" if c.get("include_first", True) else "F", "" if c.get("include_last", True) else "L"))
    return ",".join(sorted(out))


def gen_cases(rng, tier):
    n = 220 if tier == "quick" else 4000
    K = 4 if tier == "quick" else 8
    cases = []
    for i in range(n):
        spec = ocpgen.gen_stage(rng, PROFILE)
        grids = ["control", "control", "integrator"]
        if spec["method"]["cls"] == "DC":
            grids.append("integrator_roots")
        ncon = rng.randint(3, 8)
        spec["constraints"] = [ocpgen.gen_constraint(rng, spec, cid + 1, grids=grids) for cid in range(ncon)]
        for c in spec["constraints"]:
            if rng.random() < 0.2:
                c["scale"] = ocpgen.rand_constraint_scale(rng, c)   # scale= divides body and bounds alike: same instances
        if rng.random() < 0.3:
            spec["objective"] = ocpgen.gen_objective(rng, spec, 1)
        kind = "normal"
        r = rng.random()
        if r < 0.05 and spec["method"]["cls"] != "DC":
            kind = "roots-under-shooting"
            c = ocpgen.gen_constraint(rng, spec, 99, grids=["integrator_roots"], allow_point=False)
            c["grid"] = "integrator_roots"
            c.pop("include_first", None)
            c.pop("include_last", None)
            spec["constraints"].append(c)
        elif r < 0.08:
            kind = "constant-false"
            spec["constraints"].append({"cid": 98, "form": "le", "lhs": [["c", 2.0]], "rhs": [["c", 1.0]]})
        elif r < 0.11:
            kind = "constant-true"
            spec["constraints"].append({"cid": 97, "form": "le", "lhs": [["c", 1.0]], "rhs": [["c", 2.0]]})
        cases.append({"spec": spec, "K": K, "seed": rng.getrandbits(32), "kind": kind})
    return cases


def classify(case, v):
    return v.get("mech")


def _has_neg_offset(c):
    from ..gen import expr as E
    nodes = []
    for fld in ("lhs", "rhs", "lb", "ub"):
        nodes.extend(c.get(fld, []) or [])
    offs = [n[2] for nd in nodes for n in E.walk(nd) if n[0] == "off"]
    return offs


def run_case(case):
    from ..gen import build
    from ..obs import nlp, coords
    from ..ref import model
    spec = case["spec"]
    kind = case.get("kind", "normal")
    sig = C.config_sig(spec, con_kinds(spec) + "|" + kind)
    res = {"sig": sig, "evals": 0, "violations": [],
           "counters": {"constraints_compared": 0, "instances": 0, "rows_attributed": 0, "system_rows": 0,
                        "rejections": 0}}
    cls = spec["method"]["cls"]
    want = ("control", "integrator", "roots") if cls == "DC" else ("control", "integrator")
    try:
        b = C.call("declare", build.build_ocp, spec)
        view = C.call("transcribe", nlp.NlpView, b.ocp)
    except C.RockitRaised as e:
        if kind in ("roots-under-shooting", "constant-false"):
            res["evals"] += 1
            res["counters"]["rejections"] += 1
            res["sample"] = {"kind": kind, "raised": repr(e.exc)[:200]}
            return res
        res["violations"].append(C.exc_violation(ID, e, "|".join(sig.split("|")[:2])))
        return res
    if kind == "roots-under-shooting":
        rows = int(np.sum(view.row_cid == 99))
        res["evals"] += 1
        if rows == 0:
            res["violations"].append({
                "kind": "unplaceable-constraint-ignored", "mech": "C04|unplaceable-ignored|integrator_roots-under-shooting",
                "detail": "a constraint with grid='integrator_roots' under %s produced no exception and no NLP row" % cls})
        else:
            res["violations"].append({
                "kind": "unplaceable-constraint-placed", "mech": "C04|roots-under-shooting-placed",
                "detail": "grid='integrator_roots' under %s produced %d rows" % (cls, rows)})
        spec = dict(spec)
        spec["constraints"] = [c for c in spec["constraints"] if c["cid"] != 99]
    if kind == "constant-false":
        res["violations"].append({"kind": "constant-false-accepted", "mech": "C04|constant-false-accepted",
                                  "detail": "the constraint 2 <= 1 was transcribed without an exception"})
        return res
    if kind == "constant-true":
        res["evals"] += 1
        if int(np.sum(view.row_cid == 97)):
            res["violations"].append({"kind": "constant-true-kept", "mech": "C04|constant-true-kept",
                                      "detail": "the constraint 1 <= 2 produced NLP rows"})
        spec = dict(spec)
        spec["constraints"] = [c for c in spec["constraints"] if c["cid"] != 97]
    try:
        rb = C.call("sample", coords.ReadBack, b, view, want)
        J = C.call("jacobian", b.ocp.jacobian)
    except C.RockitRaised as e:
        res["violations"].append(C.exc_violation(ID, e, "|".join(sig.split("|")[:2])))
        return res
    res["evals"] += 1
    if J.size1() != view.ng:
        res["violations"].append({"kind": "jacobian-rows", "mech": "C04|jacobian-rows",
                                  "detail": "ocp.jacobian() has %d rows, the NLP %d" % (J.size1(), view.ng)})
    rng = np.random.default_rng(case["seed"])
    traj_pref = ("xc:", "xi:", "xr:", "zr:", "uc:", "vc:", "v:") if cls == "DC" else ("xc:", "uc:", "vc:", "v:")
    if cls == "SS":
        traj_pref = ("uc:", "vc:", "v:")   # SingleShooting: node states are functions of everything incl. time
    traj_cols = C.state_columns(view, rb, traj_pref)
    # horizon variables are user variables of kind "horizon"; they belong to the time grid
    hor = [s["name"] for s in spec.get("variables", []) if s.get("role") == "horizon"]
    if hor:
        traj_cols -= C.state_columns(view, rb, tuple("v:" + h for h in hor))
    pattern = C.row_pattern(view)
    known_cids = {c["cid"] for c in spec["constraints"]}
    foreign = [int(c) for c in set(view.row_cid.tolist()) if c != -1 and c not in known_cids]
    if foreign:
        res["violations"].append({"kind": "foreign-rows", "mech": "C04|rows-with-unknown-id",
                                  "detail": "rows attributed to ids %s that were never declared" % foreign})
    pending = {}
    extra_seen = {}
    npoints = 0
    for it in range(case["K"]):
        w = view.random_point(rng)
        ph = rb(w)
        f, atoms = view.atoms(w)
        if not C.finite([a[1] for a in atoms], ph["tc"]) or not C.phys_ok(ph):
            res["counters"]["discarded_points"] = res["counters"].get("discarded_points", 0) + 1
            continue
        ref = model.RefModel(spec, ph)
        rt = 1e-9
        if cls == "SS":
            amp = ref.amplification()
            if amp > 1e5:
                res["counters"]["discarded_points"] = res["counters"].get("discarded_points", 0) + 1
                continue
            rt = max(1e-9, 1e-13 * amp)
        scale = max([1.0] + [float(np.max(np.abs(v))) for k, v in ph.items() if isinstance(v, np.ndarray) and v.size])
        bad = False
        for c in spec["constraints"]:
            exp, ninst = ref.constraint_atoms(c)
            obs = [(a[0], a[1]) for a in atoms if a[2] == c["cid"]]
            if not C.finite([v for _, v in exp]):
                continue
            sc = max([scale] + [abs(v) for _, v in exp])
            un_e, un_o = nlp.match_multiset(exp, obs, scale=sc, rtol=rt)
            res["evals"] += 1
            res["counters"]["constraints_compared"] += 1
            res["counters"]["instances"] += ninst
            res["counters"]["rows_attributed"] += len(obs)
            if un_e or un_o:
                mech = "C04|instance-mismatch"
                # is it exactly the documented mechanism: final-node instance of a constraint with a negative offset?
                offs = _has_neg_offset(c)
                if offs and all(o < 0 for o in offs) and c.get("include_last", True) and not un_o and \
                        (c.get("grid") in (None, "control")):
                    c2 = dict(c)
                    c2["include_last"] = False
                    exp2, _ = ref.constraint_atoms(c2)
                    e2, o2 = nlp.match_multiset(exp2, obs, scale=sc, rtol=rt)
                    if not e2 and not o2 and max(-o for o in offs) <= spec["method"]["N"]:
                        mech = "C04|final-node-instance-dropped|negative-offset"
                if mech == "C04|instance-mismatch" and un_e and not un_o and all(
                        (exp[i][0] == "ge" and exp[i][1] >= 0) or (exp[i][0] == "eq" and exp[i][1] == 0)
                        for i in un_e):
                    # possibly an instance that is constant and true (it must vanish): decided after all points
                    pending.setdefault(c["cid"], []).append(sorted(round(exp[i][1], 12) for i in un_e))
                    if len(pending[c["cid"]]) == it + 1:
                        continue
                if mech != "C04|instance-mismatch":
                    # documented mechanism: record once, keep checking everything else of this case
                    if not any(v["mech"] == mech and v.get("cid") == c["cid"] for v in res["violations"]):
                        res["violations"].append({"kind": "instance-mismatch", "mech": mech, "cid": c["cid"],
                                                  "detail": "constraint id %d (%s, offsets=%s): no instance at the "
                                                            "final node" % (c["cid"], c["form"], offs)})
                    continue
                res["violations"].append({
                    "kind": "instance-mismatch", "mech": mech,
                    "detail": "point %d, constraint id %d (%s, grid=%s, include_first=%s, include_last=%s, offsets=%s): "
                              "%d expected slacks unmatched %s, %d NLP slacks unmatched %s; expected %d instances" % (
                                  it, c["cid"], c["form"], c.get("grid"), c.get("include_first", True),
                                  c.get("include_last", True), offs, len(un_e), C.short([exp[i][1] for i in un_e][:5]),
                                  len(un_o), C.short([obs[i][1] for i in un_o][:5]), ninst)})
                bad = True
        # system rows: dynamics (matched) or time-grid only
        dyn = ref.dyn_atoms()
        sysat = [(a[0], a[1], a[4]) for a in atoms if a[2] == -1]
        sys_eq = [(k, v, r) for k, v, r in sysat if k == "eq"]
        un_e, un_o = nlp.match_multiset(dyn, [(k, v) for k, v, _ in sys_eq], scale=scale, rtol=1e-9)
        res["counters"]["system_rows"] += len(sysat)
        res["evals"] += 1
        if un_e:
            res["violations"].append({"kind": "dynamic-row-missing", "mech": "C04|dynamic-row-missing",
                                      "detail": "point %d: %d reference dynamic residuals not found among system rows" % (
                                          it, len(un_e))})
            bad = True
        matched_rows = {sys_eq[i][2] for i in range(len(sys_eq))} - {sys_eq[i][2] for i in un_o}
        for r_ in {r for k, v, r in sysat if r not in matched_rows and (pattern[r] & traj_cols)}:
            extra_seen[r_] = extra_seen.get(r_, 0) + 1
        # (two points: a near-collision inside the matching tolerance can pair a dynamic residual with a grid row)
        extra = sorted(r_ for r_, n_ in extra_seen.items() if n_ >= 2)
        if extra:
            res["violations"].append({
                "kind": "undeclared-restriction", "mech": "C04|undeclared-restriction",
                "detail": "point %d: system rows %s (sites %s) restrict trajectory variables but are neither dynamics "
                          "nor declared" % (it, extra[:6], sorted({view.row_site[r] for r in extra})[:4])})
            bad = True
        if it == 0:
            c0 = spec["constraints"][0]
            res["sample"] = {"spec": C.spec_digest(spec), "constraint_kinds": con_kinds(spec),
                             "first_constraint": {"cid": c0["cid"], "form": c0["form"], "grid": c0.get("grid"),
                                                  "expected_slacks": C.short([v for _, v in ref.constraint_atoms(c0)[0]][:6])}}
        npoints += 1
        if bad:
            break
    for cid, lst in pending.items():
        const = len(lst) >= 2 and len(lst) == npoints and all(l == lst[0] for l in lst)
        if const:
            res["counters"]["constant_true_instances_vanished"] = res["counters"].get(
                "constant_true_instances_vanished", 0) + len(lst[0])
        elif not res["violations"]:
            res["violations"].append({
                "kind": "instance-missing", "mech": "C04|instance-missing",
                "detail": "constraint id %d: expected instances %s have no NLP row (and are not constant)" % (
                    cid, lst[:2])})
    res["nontrivial"] = res["counters"]["constraints_compared"] > 0 or res["counters"]["rejections"] > 0
    return res
