"""C05 -- the NLP objective is the sum of the declared Mayer, sum and integral terms."""
import numpy as np

from ..gen import ocpgen
from . import common as C

ID = "C05"
LEVEL = "exploration"
RULE = ("Random OCP specifications with 1-5 objective terms built from at_t0/at_tf/sum/sum(include_last)/"
        "integral(grid='control')/integral (also of increments next(e)-e), combined linearly and non-linearly with T, t0, global parameters and "
        "variables; integrands depend on states, controls, algebraics, per-interval quantities and time.  Every method "
        "(MultipleShooting, SingleShooting with rk/expl_euler/set_next, DirectCollocation degree 1..5 radau/legendre) x "
        "N, M x every grid class x fixed/free/parametric horizon.  f(w) is evaluated at K random decision vectors and "
        "compared with the numpy evaluation of the declared terms (scheme quadrature on the augmented system for "
        "shooting, collocation weights for DirectCollocation, interval-length weighted left sums).  On a subsample the "
        "OCP is handed to ipopt with max_iter=0 and the cost the solver evaluated, sol.value(ocp.objective) and f(x0) "
        "are compared.  non-trivial = at least one f comparison with a non-zero term; distinct = configuration "
        "signature + multiset of term kinds.")
ASSUMPTIONS = ["reference quadrature rules follow the property statement", "read-back of primitives on control/"
               "integrator/root grids is the observation boundary"]
ANCHORS = ["sampling_method:SamplingMethod.add_objective", "direct_method:DirectMethod.fill_placeholders_integral",
           "sampling_method:SamplingMethod.fill_placeholders_sum_control"]
CASE_LIMIT = {"quick": 120, "thorough": 300}

PROFILE = {"methods": ["MS", "SS", "DC"], "alg": 0.4,
           "grids": ["uniform", "geometric", "function", "free", "uniform_loc", "geometric_loc", "density"],
           "quad_states": 0.0}


def term_kinds(terms):
    from ..gen import expr as E
    kinds = []
    for t in terms:
        kinds.extend(sorted(n[0] for n in E.walk(t) if n[0] in E.PLACEHOLDERS))
    return "+".join(sorted(kinds))


def gen_cases(rng, tier):
    n = 200 if tier == "quick" else 4000
    K = 5 if tier == "quick" else 10
    cases = []
    for i in range(n):
        spec = ocpgen.gen_stage(rng, PROFILE)
        spec["objective"] = ocpgen.gen_objective(rng, spec, rng.randint(1, 5))
        if rng.random() < 0.25 and spec.get("dyn") != "next":
            # look-alike integrands: the same function of two different symbols of one category (rockit gives every
            # state the name 'x' and every control the name 'u'; the two integrals must stay two integrals)
            for cat in rng.sample(["x", "u", "z"], 3):
                lv = spec["leaves"].get(cat, [])
                pairs = [(a, b_) for a in lv for b_ in lv if a[1] != b_[1] and a[2:] == b_[2:]]
                if pairs:
                    a, b_ = rng.choice(pairs)
                    fn = rng.choice(["sq", "sin", "tanh"])
                    grid = rng.choice(["integral", "integral", "intc"])
                    spec["objective"] = spec["objective"][:3] + [[grid, [fn, a]], ["*", ["c", ocpgen.rnd(rng, 0.5, 2.0)],
                                                                                  [grid, [fn, b_]]]]
                    break
        if rng.random() < 0.2:
            # increments: sum / left sum over k of a quantity shifted by one interval (the last summand reads the
            # final node: states and include_last quantities have their own value there)
            from ..gen import expr as E
            sigl = ocpgen.signal_leaves(spec)
            inner = ["+", E.rand_expr(rng, sigl, depth=1), rng.choice(sigl)]
            grid = rng.choice(["sum", "sum", "intc"])
            spec["objective"] = spec["objective"][:4] + [[grid, ["sq", ["-", ["off", inner, 1], inner]]]]
        tap = (rng.random() < 0.2) and spec["method"].get("intg") in (None, "rk", "expl_euler")
        if tap:
            spec["solver_options"] = {"ipopt.max_iter": 0, "ipopt.print_level": 0, "print_time": False,
                                      "ipopt.hessian_approximation": "limited-memory"}
        cases.append({"spec": spec, "K": K, "seed": rng.getrandbits(32), "tap": bool(tap)})
    return cases


def classify(case, v):
    return v.get("mech")


def run_case(case):
    from ..gen import build
    from ..obs import nlp, coords
    from ..ref import model
    spec = case["spec"]
    kinds = term_kinds(spec["objective"])
    sig = C.config_sig(spec, kinds)
    res = {"sig": sig, "evals": 0, "violations": [], "counters": {"f_compared": 0, "taps": 0}}
    want = ("control", "integrator", "roots") if spec["method"]["cls"] == "DC" else ("control",)
    try:
        b = C.call("declare", build.build_ocp, spec)
        view = C.call("transcribe", nlp.NlpView, b.ocp)
        rb = C.call("sample", coords.ReadBack, b, view, want)
    except C.RockitRaised as e:
        g = spec["method"].get("grid") or {}
        feat = "intc" if "intc" in kinds else "-"
        rowgrid = "rowgrid" if g.get("cls", "Uniform") not in ("Uniform",) and not (
            g.get("localize_t0") or g.get("localize_T") or g.get("cls") == "Free") else "colgrid"
        res["violations"].append(C.exc_violation(ID, e, "%s|%s" % (feat, rowgrid)))
        return res
    rng = np.random.default_rng(case["seed"])
    for it in range(case["K"]):
        w = view.random_point(rng)
        ph = rb(w)
        f, _, _, _ = view.eval(w)
        ref = model.RefModel(spec, ph)
        rt = 1e-9
        if spec["method"]["cls"] == "SS":
            amp = ref.amplification()
            if amp > 1e5:
                res["counters"]["discarded_points"] = res["counters"].get("discarded_points", 0) + 1
                continue
            rt = max(1e-9, 1e-13 * amp)
        fe = ref.objective()
        if not C.finite([f, fe]) or not C.phys_ok(ph):
            res["counters"]["discarded_points"] = res["counters"].get("discarded_points", 0) + 1
            continue
        res["evals"] += 1
        res["counters"]["f_compared"] += 1
        if abs(f - fe) > rt * (1 + abs(f) + abs(fe)):
            res["violations"].append({
                "kind": "objective-mismatch", "mech": "C05|objective-mismatch",
                "detail": "point %d: NLP objective %.12g, declared terms evaluate to %.12g (terms: %s)" % (
                    it, f, fe, kinds)})
            break
        if it == 0:
            res["sample"] = {"spec": C.spec_digest(spec), "terms": kinds, "f_nlp": f, "f_reference": fe}
    if case.get("tap") and not res["violations"]:
        try:
            import casadi as ca
            try:
                sol = b.ocp.solve_limited()
            except Exception:
                sol = b.ocp.non_converged_solution
            f_sol = float(sol.value(b.ocp.objective))
            it_ = sol.stats.get("iterations") or {}
            if not it_.get("obj"):
                raise KeyError("no-iterations")      # ipopt stopped before evaluating anything (e.g. too few dof)
            obj0 = float(it_["obj"][0])
            f0, _, _, _ = view.eval(view.x0)
            res["counters"]["taps"] += 1
            res["evals"] += 1
            if not (abs(f_sol - obj0) <= 1e-9 * (1 + abs(obj0)) and abs(f0 - obj0) <= 1e-9 * (1 + abs(obj0))):
                res["violations"].append({
                    "kind": "solver-cost-mismatch", "mech": "C05|solver-cost-mismatch",
                    "detail": "ipopt evaluated %.12g at the start point, sol.value(ocp.objective)=%.12g, f(x0)=%.12g" % (
                        obj0, f_sol, f0)})
        except KeyError as e:
            if "no-iterations" not in str(e):
                res["violations"].append(C.exc_violation(ID, C.RockitRaised("solve_limited", e), "tap"))
        except Exception as e:  # noqa
            res["violations"].append(C.exc_violation(ID, C.RockitRaised("solve_limited", e), "tap"))
    res["nontrivial"] = res["evals"] > 0
    return res
