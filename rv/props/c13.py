"""C13 -- the transcription depends only on the final specification, not on its history."""
import copy

import numpy as np

from ..gen import ocpgen, expr as E
from . import common as C

ID = "C13"
LEVEL = "exploration"
RULE = ("Random OCP specifications x random operation sequences (length 3-12) over {set_value, set_initial, subject_to, "
        "clear_constraints, add_objective, method(new method), solver(new options), set_T, set_t0, sample, value, "
        "jacobian, solve}.  Every mutating operation is mirrored in a shadow specification (plain data).  At check "
        "points a fresh OCP is declared from the shadow and both problems are observed: NLP sizes, f, g, lbg, ubg at "
        "common random decision vectors, parameter vector, start point, and (after solves) the solver settings in effect "
        "sensed through ipopt's iteration count / return status under a per-call max_iter.  An edit made after a "
        "transcription must be honoured (evolved == fresh) or rejected (the edit or the next transcribing call raises); "
        "ignored or corrupted is a violation.  Queries and repeated solves must neither raise nor change anything; the "
        "declared content (numbers of states / controls / variables / declared constraints, FreeTime horizons) is "
        "snapshotted around every transcription.  non-trivial = at least one post-transcription edit compared with a "
        "fresh OCP; distinct = configuration signature x operation pattern.")
ASSUMPTIONS = ["shadow model of each public operation", "variable order of two transcriptions of one specification "
               "coincides", "solves use rk / collocation and max_iter <= 3"]
ANCHORS = ["ocp:Ocp._transcribe", "stage:Stage._set_transcribed", "stage:Stage.method"]
CASE_LIMIT = {"quick": 240, "thorough": 400}

PROFILE = {"methods": ["MS", "SS", "DC"], "alg": 0.2, "intgs": ["rk", "expl_euler"],
           "grids": ["uniform", "geometric", "function"], "t0_kinds": ["num", "num", "free"], "T_kinds": ["num", "num", "free", "param"],
           "N": [1, 2, 3], "M": [1, 2], "degrees": [1, 2, 3], "quad_states": 0.0, "allow_matrix": False}

MUTATORS = ["set_value", "set_initial", "subject_to", "clear_constraints", "add_objective", "method", "solver", "set_T",
            "set_t0", "set_rhs"]
QUERIES = ["sample", "value", "jacobian", "solve"]


def gen_cases(rng, tier):
    n = 110 if tier == "quick" else 2500
    cases = []
    for i in range(n):
        spec = ocpgen.gen_stage(rng, PROFILE)
        spec["constraints"] = [ocpgen.gen_constraint(rng, spec, 1, grids=["control"], allow_offsets=False)]
        spec["objective"] = ocpgen.gen_objective(rng, spec, 1, allow=["at_tf", "sum", "integral"])
        spec["solver_options"] = {"ipopt.max_iter": 1, "ipopt.print_level": 0, "print_time": False,
                                  "ipopt.hessian_approximation": "limited-memory"}
        ops = []
        nops = rng.randint(3, 12)
        cid = 10
        curN = spec["method"]["N"]
        transcribed = False
        for _ in range(nops):
            kind = rng.choice(MUTATORS + QUERIES + QUERIES)
            op = {"op": kind}
            if kind == "set_value":
                if not spec["params"]:
                    continue
                p = rng.choice(spec["params"])
                from .c09 import rand_value, concat_event
                ce = concat_event(rng, spec, curN) if rng.random() < 0.25 else None
                if ce:
                    op.update(ce)
                else:
                    prev = [o["value"] for o in ops if o["op"] == "set_value" and o.get("name") == p["name"]] + [p["value"]]
                    val = rand_value(rng, p, curN)
                    prev = [v_ for v_ in prev if np.array(v_).shape == np.array(val).shape]
                    if prev and rng.random() < 0.3:
                        val = rng.choice(prev)       # back to a value the parameter had before
                    op.update({"name": p["name"], "value": val, "inplace": rng.random() < 0.35})
            elif kind == "set_initial":
                free = [key for key in ("T", "t0") if spec[key]["kind"] == "free"]
                if free and rng.random() < 0.4:
                    key = rng.choice(free)
                    op.update({"name": key, "value": ocpgen.rnd(rng, 0.3, 3.0, 3) if key == "T" else ocpgen.rnd(rng, -2, 2, 3)})
                else:
                    tg = [s for s in spec["controls"]] + [s for s in spec["states"] if spec["method"]["cls"] != "SS"]
                    tg = [s for s in tg if s["shape"][1] == 1]
                    if not tg:
                        continue
                    t = rng.choice(tg)
                    if rng.random() < 0.5:
                        from .c10 import time_expr
                        mat = [[time_expr(rng)] for _ in range(t["shape"][0])]
                        gp = [p_ for p_ in spec["params"] if not p_.get("grid") and p_.get("role") != "horizon"]
                        if gp and rng.random() < 0.4:
                            # a guess that is an expression of a parameter (and time): it follows later set_value calls
                            pl = rng.choice(ocpgen.elems(*[(q["name"], q["shape"]) for q in [rng.choice(gp)]][0]))
                            mat[0][0] = ["+", ["*", pl, ["t"]], mat[0][0]]
                        op.update({"name": t["name"], "mat": mat})
                    else:
                        op.update({"name": t["name"], "value": ocpgen.rnd(rng, -2, 2)})
            elif kind == "subject_to":
                cid += 1
                op["constraint"] = ocpgen.gen_constraint(rng, spec, cid, grids=["control", "integrator"], allow_offsets=False)
            elif kind == "add_objective":
                op["term"] = ocpgen.gen_objective(rng, spec, 1, allow=["at_tf", "sum", "at_t0"])[0]
            elif kind == "method":
                m = dict(spec["method"])
                m["N"] = rng.choice([1, 2, 3, 4])
                m["M"] = rng.choice([1, 2])
                if rng.random() < 0.4:
                    m["grid"] = ocpgen.gen_grid(rng, ["uniform", "geometric"], m["N"])
                op["method"] = m
                curN = m["N"]
            elif kind == "solver":
                op["options"] = {"ipopt.max_iter": rng.choice([0, 1, 2, 3]), "ipopt.print_level": 0, "print_time": False,
                                 "ipopt.hessian_approximation": "limited-memory"}
                # the user's own options dictionary edited in place and passed again (same object)
                op["inplace"] = rng.random() < 0.4
            elif kind == "set_rhs":
                # a state's right-hand side / update rule declared again (same dimensions, other expression)
                st_ = rng.choice([q for q in spec["states"] if not q.get("quad")])
                lv = spec["leaves"]
                op.update({"name": st_["name"], "mat": ocpgen.rand_mat(rng, st_["shape"], [rng.choice(lv["u"])] if lv["u"] else [],
                                                                       lv["x"], depth=2)})
            elif kind == "set_T":
                if spec["T"]["kind"] != "num":
                    continue
                op["value"] = ocpgen.rnd(rng, 0.3, 3.0, 3)
            elif kind == "set_t0":
                if spec["t0"]["kind"] != "num":
                    continue
                op["value"] = ocpgen.rnd(rng, -2, 2, 3)
            ops.append(op)
        if i % 4 == 3 and (spec["T"]["kind"] == "free" or spec["t0"]["kind"] == "free"):
            # scenario family: guesses that depend on each other, updated across a transcription
            from .c10 import time_expr
            tg = [s for s in spec["controls"]] + [s for s in spec["states"] if spec["method"]["cls"] != "SS"]
            tg = [s for s in tg if s["shape"][1] == 1]
            key = "T" if spec["T"]["kind"] == "free" else "t0"
            if tg:
                t = rng.choice(tg)
                scen = [{"op": "set_initial", "name": t["name"], "mat": [[time_expr(rng)] for _ in range(t["shape"][0])]},
                        {"op": rng.choice(["sample", "solve"])},
                        {"op": "set_initial", "name": key,
                         "value": ocpgen.rnd(rng, 0.3, 3.0, 3) if key == "T" else ocpgen.rnd(rng, -2, 2, 3)},
                        {"op": "sample"}]
                pos = rng.randint(0, len(ops))
                ops = ops[:pos] + scen + ops[pos:]
        if i % 5 == 1:
            # scenario family: solver settings changed between two solves (fresh or the same dictionary object)
            mi = rng.choice([2, 3])
            scen = [{"op": "solve"},
                    {"op": "solver", "inplace": rng.random() < 0.6,
                     "options": {"ipopt.max_iter": mi, "ipopt.print_level": 0, "print_time": False,
                                 "ipopt.hessian_approximation": "limited-memory"}},
                    {"op": "solve"}]
            if rng.random() < 0.5:
                ops = ops + scen
            else:
                ops = scen + ops
        # (global parameters and per-interval ones alike: a guess may be written in terms of either)
        gp_ = [p_ for p_ in spec["params"] if p_.get("role") != "horizon" and (not p_.get("grid") or p_["shape"][1] == 1)]
        tg_ = [s_ for s_ in spec["controls"] if s_["shape"][1] == 1]
        if i % 5 == 2 and gp_ and tg_:
            # scenario family: a guess written in terms of a parameter whose value changes after a transcription
            from .c09 import rand_value
            from .c10 import time_expr
            pp_ = rng.choice(gp_)
            pl = rng.choice(ocpgen.elems(pp_["name"], pp_["shape"]))
            t_ = rng.choice(tg_)
            mat = [[time_expr(rng)] for _ in range(t_["shape"][0])]
            mat[0][0] = ["+", ["*", pl, ["+", ["t"], ["c", 1.0]]], mat[0][0]]
            scen = [{"op": "set_initial", "name": t_["name"], "mat": mat}, {"op": rng.choice(["sample", "solve"])},
                    {"op": "set_value", "name": pp_["name"], "value": rand_value(rng, pp_, curN)}, {"op": "sample"}]
            ops = ops + scen
        if i % 5 == 3 and spec["params"] and not any(o["op"] == "method" for o in ops):
            # scenario family: a value changed and changed back between two queries
            from .c09 import rand_value
            pp_ = rng.choice(spec["params"])
            cur = [o["value"] for o in ops if o["op"] == "set_value" and o.get("name") == pp_["name"]]
            v1 = cur[-1] if cur else pp_["value"]
            scen = [{"op": rng.choice(["sample", "solve"])},
                    {"op": "set_value", "name": pp_["name"], "value": rand_value(rng, pp_, curN), "inplace": True},
                    {"op": rng.choice(["sample", "value"])},
                    {"op": "set_value", "name": pp_["name"], "value": rand_value(rng, pp_, curN), "inplace": True},
                    {"op": "set_value", "name": pp_["name"], "value": v1, "inplace": rng.random() < 0.5}, {"op": "sample"}]
            ops = ops + scen
        if i % 5 == 4 and not any(o["op"] == "method" for o in ops):
            # scenario family: values given to a concatenation of parameters on the transcribed OCP must survive the
            # re-transcription an invalidating edit causes
            from .c09 import concat_event
            ce = concat_event(rng, spec, curN)
            if ce:
                cid += 1
                ops = ops + [{"op": "sample"}, dict(ce, op="set_value"),
                             {"op": "subject_to", "constraint": ocpgen.gen_constraint(rng, spec, cid, grids=["control"],
                                                                                      allow_offsets=False)},
                             {"op": rng.choice(["sample", "solve"])}]
        if spec["T"]["kind"] == "param" and i % 3 == 0:
            # scenario family: a guess written in terms of the horizon (not of ocp.t), horizon parameter changed later
            tg2 = [s_ for s_ in spec["controls"] if s_["shape"][1] == 1]
            if tg2:
                t_ = rng.choice(tg2)
                mat = [[["c", ocpgen.rnd(rng, -1, 1)]] for _ in range(t_["shape"][0])]
                mat[0][0] = ["+", ["*", ["c", ocpgen.rnd(rng, 0.5, 2)], ["T"]], mat[0][0]]
                ops = ops + [{"op": "set_initial", "name": t_["name"], "mat": mat}, {"op": "sample"},
                             {"op": "set_value", "name": spec["T"]["name"], "value": [[ocpgen.rnd(rng, 0.3, 3.0, 3)]]},
                             {"op": "sample"}]
        if not any(o["op"] in QUERIES for o in ops):
            ops.insert(rng.randint(0, len(ops)), {"op": "sample"})
        ops.append({"op": rng.choice(["sample", "solve"])})
        cases.append({"spec": spec, "ops": ops, "seed": rng.getrandbits(32)})
    # multi-stage: the first transcription is triggered by a query on a stage object, not on the Ocp
    from . import c12
    for mc in [c_ for c_ in c12.gen_cases(rng, "quick" if tier == "quick" else "thorough") if c_.get("kind") != "spline_sub"][
            : (20 if tier == "quick" else 200)]:
        mc["kind"] = "stage_query"
        mc["late"] = False
        mc["query_stage"] = rng.randrange(len(mc["stages"]))
        mc["query"] = rng.choice(["sample", "value"])
        mc["T_guess"] = ocpgen.rnd(rng, 0.4, 3.0, 3)
        cases.append(mc)
    # scenario family (appended last so that every earlier case keeps its draw): a parametric start time or horizon on a
    # grid with variables of its own; the parameter changes after a transcription, the grid's own start values must
    # follow as they would in a fresh OCP of the final specification (seeded change C13_K)
    loc_profile = dict(PROFILE, grids=["uniform_loc", "geometric_loc", "free", "uniform_loc"], t0_kinds=["param", "param", "num"],
                       T_kinds=["num", "param", "num"])
    for i in range(24 if tier == "quick" else 300):
        spec = ocpgen.gen_stage(rng, loc_profile)
        hp = [p_ for p_ in spec["params"] if p_.get("role") == "horizon"]
        if not hp:
            continue
        spec["constraints"] = [ocpgen.gen_constraint(rng, spec, 1, grids=["control"], allow_offsets=False)]
        spec["objective"] = ocpgen.gen_objective(rng, spec, 1, allow=["at_tf", "sum", "integral"])
        spec["solver_options"] = {"ipopt.max_iter": 1, "ipopt.print_level": 0, "print_time": False,
                                  "ipopt.hessian_approximation": "limited-memory"}
        ops = [{"op": "sample"}]
        for _ in range(rng.randint(1, 3)):
            pp_ = rng.choice(hp)
            val = ocpgen.rnd(rng, -2.0, 2.0, 3) if pp_["name"] == "p_t0" else ocpgen.rnd(rng, 0.3, 3.0, 3)
            ops += [{"op": "set_value", "name": pp_["name"], "value": [[val]], "inplace": rng.random() < 0.7},
                    {"op": rng.choice(["sample", "value", "sample"])}]
        cases.append({"spec": spec, "ops": ops, "seed": rng.getrandbits(32)})
    return cases


def classify(case, v):
    return v.get("mech")


def apply_shadow(shadow, op):
    k = op["op"]
    if k == "set_value":
        pairs = zip(op["names"], op["values"]) if "names" in op else [(op["name"], op["value"])]
        for name, value in pairs:
            for p in shadow["params"]:
                if p["name"] == name:
                    p["value"] = value
    elif k == "set_initial":
        g_new = ({"target": op["name"], "kind": "expr", "mat": op["mat"]} if "mat" in op else
                 {"target": op["name"], "kind": "const", "val": op["value"]})
        shadow["initial"] = [g for g in shadow.get("initial", []) if g["target"] != op["name"]] + [g_new]
    elif k == "subject_to":
        shadow["constraints"] = shadow["constraints"] + [op["constraint"]]
    elif k == "clear_constraints":
        shadow["constraints"] = []
    elif k == "add_objective":
        shadow["objective"] = shadow["objective"] + [op["term"]]
    elif k == "method":
        # per-interval parameter values must fit the new N: keep the columns that still exist, repeat the last one
        oldN = shadow["method"]["N"]
        shadow["method"] = op["method"]
    elif k == "solver":
        shadow["solver_options"] = op["options"]
    elif k == "set_rhs":
        shadow["rhs"] = dict(shadow["rhs"])
        shadow["rhs"][op["name"]] = op["mat"]
    elif k == "set_T":
        shadow["T"] = {"kind": "num", "val": op["value"]}
    elif k == "set_t0":
        shadow["t0"] = {"kind": "num", "val": op["value"]}


def snapshot(ocp):
    import rockit
    return {"states": len(ocp.states), "controls": len(ocp.controls), "algebraics": len(ocp.algebraics),
            "variables": {k: len(v) for k, v in ocp.variables.items() if len(v)},
            "parameters": {k: len(v) for k, v in ocp.parameters.items() if len(v)},
            "constraints": sum(len(v) for v in ocp._constraints.values()),
            "T_free": isinstance(ocp._T, rockit.FreeTime), "t0_free": isinstance(ocp._t0, rockit.FreeTime)}


def stage_declarations(st):
    """what the user declared on a stage, as far as a transcription could touch it"""
    import rockit
    return {"states": len(st.states), "qstates": len(getattr(st, "qstates", [])), "controls": len(st.controls),
            "algebraics": len(st.algebraics),
            "constraints": {k: len(v) for k, v in st._constraints.items() if len(v)}, "objective": str(st._objective),
            "T": "FreeTime" if isinstance(st._T, rockit.FreeTime) else str(st._T),
            "t0": "FreeTime" if isinstance(st._t0, rockit.FreeTime) else str(st._t0),
            "parameters": {k: len(v) for k, v in st.parameters.items() if len(v)},
            "variables": {k: len(v) for k, v in st.variables.items() if len(v)}, "guesses": len(st._initial)}


def run_stage_query(case):
    """multi-stage OCP whose first transcription is triggered through a stage object (stage.sample / stage.value): the
    declarations stay what the user wrote, the NLP is the one an Ocp-level transcription gives, and a horizon guess given
    afterwards on the stage is where that stage starts"""
    import rockit
    from ..obs import nlp
    from . import c12
    res = {"sig": "stage_query|%s|%s|%s" % (case["mode"], case["query"], "||".join(
        C.config_sig(sp).rsplit("|", 1)[0] for sp in case["stages"])), "evals": 0, "violations": [],
        "counters": {"stage_queries": 0, "declaration_snapshots": 0}}
    rng = np.random.default_rng(case["seed"])
    try:
        ocp, pv, pp, builts, tmpl, tmpl_snap, _ = C.call("declare", c12.build_multistage, case)
        ocpR, _, _, builtsR, _, _, _ = C.call("declare", c12.build_multistage, copy.deepcopy(case))
        before = [stage_declarations(b.stage) for b in builts] + [stage_declarations(ocp)]
        b = builts[case["query_stage"]]
        s0 = b.spec["states"][0]
        if case["query"] == "sample":
            C.call("stage.sample (first transcription)", b.stage.sample, b.syms[s0["name"]], grid="control")
        else:
            C.call("stage.value (first transcription)", b.stage.value, b.stage.at_tf(b.syms[s0["name"]]))
        res["counters"]["stage_queries"] += 1
        after = [stage_declarations(b_.stage) for b_ in builts] + [stage_declarations(ocp)]
    except C.RockitRaised as e:
        res["violations"].append(C.exc_violation(ID, e, "stage_query"))
        return res
    res["evals"] += 1
    res["counters"]["declaration_snapshots"] += len(before)
    for k, (a_, b_) in enumerate(zip(before, after)):
        if a_ != b_:
            diff = {key: (a_[key], b_[key]) for key in a_ if a_[key] != b_[key]}
            res["violations"].append({
                "kind": "declarations-altered", "mech": "C13|declarations-altered-by-transcription|via-stage-query",
                "detail": "%s: declarations before / after a first transcription triggered by stage.%s: %s" % (
                    "stage %d" % k if k < len(builts) else "the Ocp", case["query"], diff)})
            return res
    # a horizon guess given on a stage afterwards
    tgt = [k for k, b_ in enumerate(builts) if b_.spec["T"]["kind"] == "free"]
    try:
        if tgt:
            for o_, bs_ in ((ocp, builts), (ocpR, builtsR)):
                C.call("stage.set_initial(T)", bs_[tgt[0]].stage.set_initial, bs_[tgt[0]].stage.T, case["T_guess"])
        v1 = C.call("transcribe", nlp.NlpView, ocp)
        v2 = C.call("transcribe(reference)", nlp.NlpView, ocpR)
    except C.RockitRaised as e:
        res["violations"].append(C.exc_violation(ID, e, "stage_query"))
        return res
    res["evals"] += 1
    if (v1.nx, v1.ng, v1.np) != (v2.nx, v2.ng, v2.np):
        res["violations"].append({"kind": "nlp-size", "mech": "C13|stage-query-history|nlp-size",
                                  "detail": "sizes %s vs %s of the same OCP transcribed at Ocp level" % (
                                      (v1.nx, v1.ng, v1.np), (v2.nx, v2.ng, v2.np))})
        return res
    if v1.nx and np.max(np.abs(v1.x0 - v2.x0)) > 1e-12:
        res["violations"].append({
            "kind": "start", "mech": "C13|stage-query-history|start-point",
            "detail": "start point differs by %.3g from the same OCP never queried through a stage%s" % (
                np.max(np.abs(v1.x0 - v2.x0)), " (guess %g for T of stage %d given after the query)" % (
                    case["T_guess"], tgt[0]) if tgt else "")})
        return res
    for _ in range(2):
        w = v1.random_point(rng)
        f1, g1, lb1, ub1 = v1.eval(w, v1.p0)
        f2, g2, lb2, ub2 = v2.eval(w, v2.p0)
        res["evals"] += 1
        if not all(np.allclose(a_, b_, rtol=1e-11, atol=1e-11, equal_nan=True) for a_, b_ in
                   ((f1, f2), (g1, g2), (lb1, lb2), (ub1, ub2))):
            res["violations"].append({"kind": "nlp", "mech": "C13|stage-query-history|nlp-functions",
                                      "detail": "f %.12g vs %.12g" % (f1, f2)})
            return res
    res["nontrivial"] = True
    res["sample"] = {"mode": case["mode"], "query": case["query"], "stage": case["query_stage"], "T_guess_on": tgt[:1]}
    return res


def run_case(case):
    if case.get("kind") == "stage_query":
        return run_stage_query(case)
    import casadi as ca
    from ..gen import build
    from ..obs import nlp
    spec = case["spec"]
    ops = case["ops"]
    pattern = "".join({"set_value": "v", "set_initial": "i", "subject_to": "c", "clear_constraints": "x",
                       "add_objective": "o", "method": "m", "solver": "s", "set_T": "T", "set_t0": "t", "set_rhs": "r", "sample": "Q",
                       "value": "Q", "jacobian": "Q", "solve": "S"}[o["op"]] for o in ops)
    sig = C.config_sig(spec, pattern)
    res = {"sig": sig, "evals": 0, "violations": [],
           "counters": {"edits_after_transcription": 0, "honoured": 0, "rejected": 0, "checkpoints": 0, "queries": 0,
                        "solves": 0}}
    rng = np.random.default_rng(case["seed"])
    shadow = copy.deepcopy(spec)
    per_interval = [p for p in spec["params"] if p.get("grid")]
    try:
        b = C.call("declare", build.build_ocp, spec)
    except C.RockitRaised as e:
        res["violations"].append(C.exc_violation(ID, e, "declare"))
        return res
    ocp = b.ocp
    live_opts = spec["solver_options"]      # the dictionary object handed to ocp.solver by build_ocp
    transcribed = False
    pending_edits = []      # edits made after a transcription that have not been confronted with a fresh OCP yet
    can_solve = spec["method"].get("intg") in (None, "rk", "expl_euler")

    def checkpoint(where):
        """evolved vs fresh; returns False on violation"""
        fresh_b = C.call("declare(fresh)", build.build_ocp, copy.deepcopy(shadow))
        vf = C.call("transcribe(fresh)", nlp.NlpView, fresh_b.ocp)
        ve = nlp.NlpView(ocp)
        res["counters"]["checkpoints"] += 1
        res["evals"] += 1
        if (ve.nx, ve.ng, ve.np) != (vf.nx, vf.ng, vf.np):
            res["violations"].append({
                "kind": "evolved-differs", "mech": "C13|evolved-differs-from-fresh|size|after:" + "+".join(sorted(set(pending_edits))),
                "detail": "%s: evolved NLP nx,ng,np=%s, fresh %s (pending edits %s)" % (
                    where, (ve.nx, ve.ng, ve.np), (vf.nx, vf.ng, vf.np), pending_edits)})
            return False, fresh_b
        issues = []
        if ve.np and np.max(np.abs(ve.p0 - vf.p0)) > 1e-12:
            issues.append("parameter vector %s vs fresh %s" % (C.short(ve.p0), C.short(vf.p0)))
        if ve.nx and np.max(np.abs(ve.x0 - vf.x0)) > 1e-12:
            issues.append("start point differs by %.3g" % np.max(np.abs(ve.x0 - vf.x0)))
        for _ in range(2):
            w = vf.random_point(rng)
            a = ve.eval(w, vf.p0)
            bb = vf.eval(w, vf.p0)
            res["evals"] += 1
            if not all(np.allclose(x, y, rtol=1e-10, atol=1e-10, equal_nan=True) for x, y in zip(a, bb)):
                issues.append("f/g/bounds differ (f %.10g vs %.10g)" % (a[0], bb[0]))
                break
        if issues:
            res["violations"].append({
                "kind": "evolved-differs",
                "mech": "C13|evolved-differs-from-fresh|%s|after:%s" % (
                    "data" if "f/g" in " ".join(issues) else ("params" if "parameter" in issues[0] else "start"),
                    "+".join(sorted(set(pending_edits))) or "none"),
                "detail": "%s: %s; pending edits since the last transcription: %s" % (where, "; ".join(issues), pending_edits)})
            return False, fresh_b
        return True, fresh_b

    snap = snapshot(ocp)
    expected_snap = dict(snap)
    last_solver_stats = None
    for idx, op in enumerate(ops):
        k = op["op"]
        try:
            if k in MUTATORS:
                if k == "set_value":
                    from .c09 import do_set_value
                    do_set_value(b, op)
                elif k == "set_initial":
                    tgt = ocp.T if op["name"] == "T" else (ocp.t0 if op["name"] == "t0" else b.syms[op["name"]])
                    ocp.set_initial(tgt, b.ca_mat(op["mat"]) if "mat" in op else op["value"])
                elif k == "subject_to":
                    build.declare_constraint(b, op["constraint"])
                elif k == "clear_constraints":
                    ocp.clear_constraints()
                elif k == "add_objective":
                    ocp.add_objective(b.ca(op["term"]))
                elif k == "method":
                    ocp.method(build.make_method(op["method"]))
                    if any(True for p in per_interval):
                        # per-interval parameter values are tied to N: re-assign them for the new N
                        for p in shadow["params"]:
                            if p.get("grid"):
                                n, m = p["shape"]
                                newN = op["method"]["N"]
                                ncol = m * (newN + (1 if p.get("include_last") else 0))
                                old = np.array(p["value"], dtype=float).reshape(n, -1)
                                reps = int(np.ceil(ncol / old.shape[1]))
                                p["value"] = np.tile(old, (1, reps))[:, :ncol].tolist()
                                ocp.set_value(b.syms[p["name"]], build.param_value(p))
                elif k == "solver":
                    if op.get("inplace"):
                        live_opts.clear()
                        live_opts.update(copy.deepcopy(op["options"]))
                    else:
                        live_opts = copy.deepcopy(op["options"])
                    ocp.solver("ipopt", live_opts)
                elif k == "set_rhs":
                    if spec.get("dyn") == "next":
                        ocp.set_next(b.syms[op["name"]], b.ca_mat(op["mat"]))
                    else:
                        ocp.set_der(b.syms[op["name"]], b.ca_mat(op["mat"]))
                elif k == "set_T":
                    ocp.set_T(op["value"])
                elif k == "set_t0":
                    ocp.set_t0(op["value"])
                apply_shadow(shadow, op)
                if transcribed:
                    res["counters"]["edits_after_transcription"] += 1
                    pending_edits.append(k)
                if k == "subject_to":
                    expected_snap["constraints"] += 1
                if k == "clear_constraints":
                    expected_snap["constraints"] = 0
                continue
        except Exception as e:  # noqa
            # the edit itself is rejected: allowed after a transcription, a defect before it
            if transcribed:
                res["counters"]["rejected"] += 1
                res["sample"] = {"rejected_edit": k, "message": str(e).split("\n")[0][:160]}
                break
            res["violations"].append(C.exc_violation(ID, C.RockitRaised(k + "(before any transcription)", e), "edit"))
            break
        # ---- queries
        try:
            res["counters"]["queries"] += 1
            if k == "sample":
                ocp.sample(b.syms[spec["states"][0]["name"]], grid="control")
            elif k == "value":
                ocp.value(ocp.T)
            elif k == "jacobian":
                ocp.jacobian()
            elif k == "solve":
                if not can_solve:
                    ocp.sample(b.syms[spec["states"][0]["name"]], grid="control")
                else:
                    try:
                        sol = ocp.solve_limited()
                    except Exception as e:  # noqa
                        if "Solver failed" not in str(e) and "return_status" not in str(e):
                            raise
                        sol = ocp.non_converged_solution
                    last_solver_stats = {kk: sol.stats.get(kk) for kk in ("iter_count", "return_status")}
                    res["counters"]["solves"] += 1
        except Exception as e:  # noqa
            if pending_edits:
                res["counters"]["rejected"] += 1
                res["sample"] = {"rejected_at": k, "after_edits": list(pending_edits), "message": str(e).split("\n")[0][:200]}
                break
            res["violations"].append({
                "kind": "query-raised", "mech": "C13|query-raised|%s|%s" % (k, C.norm_msg(e)),
                "detail": "operation %d (%s) raised although nothing was edited since the last transcription: %r" % (
                    idx, k, e)})
            break
        transcribed = True
        # declared content untouched by transcription
        now = snapshot(ocp)
        res["evals"] += 1
        if now != expected_snap:
            res["violations"].append({"kind": "declaration-altered", "mech": "C13|declared-content-altered-by-transcription",
                                      "detail": "declared content %s, expected %s" % (now, expected_snap)})
            break
        try:
            ok, fresh_b = checkpoint("after operation %d (%s)" % (idx, k))
        except C.RockitRaised as e:
            res["violations"].append(C.exc_violation(ID, e, "fresh"))
            break
        if not ok:
            break
        if k == "solve" and can_solve and last_solver_stats is not None:
            try:
                try:
                    sf = fresh_b.ocp.solve_limited()
                except Exception:
                    sf = fresh_b.ocp.non_converged_solution
                fs = {kk: sf.stats.get(kk) for kk in ("iter_count", "return_status")}
                normal = ("Maximum_Iterations_Exceeded", "Solve_Succeeded", "Solved_To_Acceptable_Level")
                res["evals"] += 1
                if fs["return_status"] in normal and last_solver_stats["return_status"] in normal and fs != last_solver_stats:
                    res["violations"].append({
                        "kind": "solver-settings", "mech": "C13|solver-settings-not-in-effect|after:" + (
                            "+".join(sorted(set(pending_edits))) or "none"),
                        "detail": "evolved solve: %s, fresh OCP with the final solver options %s: %s" % (
                            last_solver_stats, shadow["solver_options"], fs)})
                    break
            except Exception as e:  # noqa
                pass
        keep = [e_ for e_ in pending_edits if e_ == "solver" and not (k == "solve" and can_solve)]
        res["counters"]["honoured"] += len(pending_edits) - len(keep)
        pending_edits = keep     # a solver() change is only confronted by the next real solve
    res["nontrivial"] = res["counters"]["checkpoints"] > 0
    res.setdefault("sample", {"spec": C.spec_digest(spec), "ops": [o["op"] for o in ops]})
    return res
