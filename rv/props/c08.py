"""C08 -- refined sampling and samplers interpolate the discrete solution consistently."""
import numpy as np

from ..gen import ocpgen, expr as E
from . import common as C

ID = "C08"
LEVEL = "exploration"
RULE = ("Random ODE (DAE for collocation) specifications with time-dependent right-hand sides, per-interval and global "
        "parameters x {SingleShooting, MultipleShooting with rk / expl_euler, DirectCollocation degree 1..5 radau / "
        "legendre} x N, M x uniform / geometric / function grids x fixed / free horizon, t0 != 0.  A dynamically "
        "feasible decision vector is produced (SingleShooting: any vector; MultipleShooting: the SingleShooting "
        "trajectory transported through physical coordinates; DirectCollocation: Newton on the NLP's own dynamic rows "
        "with initial state and controls pinned).  There: (i) refine=r samples nest (every r-th entry = integrator grid, "
        "every M-th of those = control grid, times and values); (ii) with refine=7 the 8 points of every integrator "
        "step lie on one polynomial of degree <= 1 / 4 / d that starts at the step's start state and ends at its end "
        "state, whose initial slope is the right-hand side (explicit schemes) or which passes through the helper states "
        "with the right-hand side as slope at every collocation time (collocation); the refined trajectory is "
        "continuous; (iii) exactness on polynomial solutions; (iv) ocp.sampler(e)(gist, t) at random times in [t0, t0+T] "
        "equals that polynomial (expressions of states, controls, time) and equals sample at grid times; sol.sampler "
        "likewise on a subsample.  non-trivial = polynomial fit performed on at least one step with non-constant "
        "trajectory; distinct = configuration signature x refine.")
ASSUMPTIONS = ["numpy polynomial fit through 8 points per step (degree <= 5) is exact up to round-off",
               "feasible points come from the reference roll-out / Newton on rows already validated by C01 / C02"]
ANCHORS = ["stage:Stage._grid_intg_fine", "stage:Stage.sampler"]
CASE_LIMIT = {"quick": 200, "thorough": 400}

PROFILE = {"methods": ["SS", "MS", "DC"], "intgs": ["rk", "expl_euler"], "alg": 0.3,
           "grids": ["uniform", "geometric", "function"], "t0_kinds": ["num", "free"], "T_kinds": ["num", "free"],
           "N": [1, 2, 3, 4], "M": [1, 2, 3], "degrees": [1, 2, 3, 4, 5], "allow_matrix": False, "quad_states": 0.3,
           "max_states": 2}


def gen_cases(rng, tier):
    n = 90 if tier == "quick" else 1500
    cases = []
    for i in range(n):
        spec = ocpgen.gen_stage(rng, PROFILE)
        lv = spec["leaves"]
        e = E.rand_expr(rng, lv["x"] + lv["u"] + [["t"]] + ([["t0"]] if rng.random() < 0.4 else []) +
                        (lv["z"] if rng.random() < 0.5 else []), depth=2)
        if not any(nn[0] == "s" and nn[1].startswith("x") for nn in E.walk(e)):
            e = ["+", e, rng.choice(lv["x"])]
        spec["objective"] = [["at_tf", ["sq", rng.choice(lv["x"])]]]
        kind = "random"
        if rng.random() < 0.2 and not spec["algebraics"]:
            # exactness: right-hand side polynomial in t only
            kind = "polynomial"
            cls = spec["method"]["cls"]
            deg = 0 if spec["method"].get("intg") == "expl_euler" else (1 if cls in ("MS", "SS") else spec["method"]["degree"] - 1)
            for s in spec["states"]:
                rows = []
                for _ in range(s["shape"][0]):
                    p = E.rand_const(rng)
                    tp = ["t"]
                    for k in range(deg):
                        p = ["+", p, ["*", E.rand_const(rng), tp]]
                        tp = ["*", tp, ["t"]]
                    rows.append([p])
                spec["rhs"][s["name"]] = rows
            spec["poly_degree"] = deg + 1
        cases.append({"spec": spec, "expr": e, "refine": rng.choice([1, 2, 3, 4, 5, 6, 7]), "kind": kind,
                      "sol_sampler": rng.random() < 0.2, "seed": rng.getrandbits(32)})
    return cases


def classify(case, v):
    return v.get("mech")


def feasible_point(spec, obs, rng, w0=None):
    """returns (w, how) with the dynamic rows satisfied"""
    import copy
    from . import engine
    from ..obs import transport
    cls = spec["method"]["cls"]
    w = obs.view.random_point(rng, 0.7) if w0 is None else np.array(w0, dtype=float).copy()
    for key in ("T", "t0"):
        pass
    if cls == "SS":
        return w, "any"
    if cls == "MS":
        sp2 = copy.deepcopy(spec)
        sp2["method"] = dict(spec["method"], cls="SS")
        src = engine.Observed(sp2)
        ws = src.view.random_point(rng, 0.7)
        names = [n for n in obs.rb.names if n.split(":")[0] in ("xc", "uc", "vc", "v", "T", "t0", "tc")]
        wd, resid, info = transport.transport(src, ws, obs, names, rng=rng)
        if resid > 1e-9:
            return None, "transport residual %.3g" % resid
        return wd, "transported SingleShooting trajectory"
    # DirectCollocation: Newton on the dynamic rows, pinning x(t0), controls, variables, horizon
    import casadi as ca
    view = obs.view
    rows = [r for r in range(view.ng) if view.row_cid[r] == -1]
    _, g0, lb, ub = view.eval(w)
    rows = [r for r in rows if np.isfinite(lb[r]) and lb[r] == ub[r]]
    pinned = set()
    for n, e in zip(obs.rb.names, obs.rb.exprs):
        if n.split(":")[0] in ("uc", "vc", "v", "T", "t0", "tc"):
            sp = ca.jacobian(ca.vec(e), view.x).sparsity()
            pinned |= {c for c in range(sp.size2()) if sp.colind()[c + 1] > sp.colind()[c]}
        if n.startswith("xc:"):
            N = spec["method"]["N"]
            first = e[:, :e.shape[1] // (N + 1)]
            sp = ca.jacobian(ca.vec(first), view.x).sparsity()
            pinned |= {c for c in range(sp.size2()) if sp.colind()[c + 1] > sp.colind()[c]}
    pattern = C.row_pattern(view)
    used = set().union(*[pattern[r] for r in rows]) if rows else set()
    free = sorted(used - pinned)
    # rows that only involve pinned columns (grid rows) are not part of the dynamics
    rows = [r for r in rows if pattern[r] & set(free)]
    if len(free) != len(rows):
        return None, "dynamic system not square (%d unknowns, %d rows)" % (len(free), len(rows))
    G = ca.Function("G", [view.x, view.p], [view.adv.g[rows], ca.jacobian(view.adv.g, view.x)[rows, free]])
    wk = w.copy()
    for it in range(40):
        gv, J = G(wk, view.p0)
        gv = np.array(gv).reshape(-1) - lb[rows]
        if np.max(np.abs(gv)) < 1e-12:
            break
        try:
            step = np.linalg.solve(np.array(J), gv)
        except np.linalg.LinAlgError:
            return None, "singular collocation Jacobian"
        wk[free] -= step
        if not np.all(np.isfinite(wk)):
            return None, "Newton diverged"
    gv, _ = G(wk, view.p0)
    if np.max(np.abs(np.array(gv).reshape(-1) - lb[rows])) > 1e-9:
        return None, "Newton did not converge"
    return wk, "Newton on the collocation rows"


def run_case(case):
    import casadi as ca
    from . import engine
    from ..ref import model, colloc
    spec = case["spec"]
    m = spec["method"]
    cls, N, M = m["cls"], m["N"], m["M"]
    r = case["refine"]
    sig = C.config_sig(spec, "r%d|%s" % (r, case["kind"]))
    res = {"sig": sig, "evals": 0, "violations": [],
           "counters": {"steps_fitted": 0, "nesting_points": 0, "sampler_points": 0, "slopes": 0}}
    rng = np.random.default_rng(case["seed"])
    try:
        obs = engine.Observed(spec)
        b = obs.b
        st = b.stage
        e_mx = b.ca(case["expr"])
        states = [s for s in spec["states"] if not s.get("quad")]
        targets = [(s["name"], b.syms[s["name"]], s["shape"][0]) for s in states] + [("expr", e_mx, 1)]
        outs = []
        for nm, sym, dim in targets:
            for g, kw in (("control", {}), ("integrator", {}), ("integrator", {"refine": r}), ("integrator", {"refine": 7})):
                tt, vv = C.call("sample:%s%s" % (g, kw), st.sample, sym, grid=g, **kw)
                outs += [ca.MX(tt), ca.MX(vv)]
        outs.append(ca.MX(b.ocp.gist))
        F = ca.Function("s", [obs.view.x, obs.view.p], outs)
        # per-interval quantities (piecewise constant, the extra column of include_last symbols at tf): nesting only
        pw = [s_ for s_ in spec.get("params", []) + spec.get("variables", []) if s_.get("grid") == "control"]
        outs_pw = []
        for s_ in pw:
            for g, kw in (("control", {}), ("integrator", {}), ("integrator", {"refine": r})):
                outs_pw.append(ca.MX(C.call("sample:%s%s" % (g, kw), st.sample, b.syms[s_["name"]], grid=g, **kw)[1]))
        F_pw = ca.Function("spw", [obs.view.x, obs.view.p], outs_pw) if outs_pw else None
        # quadrature states under shooting: the refined values lie on the scheme's polynomial as well
        qst = [s_ for s_ in spec["states"] if s_.get("quad")] if cls in ("MS", "SS") and m.get("intg") in ("rk", "expl_euler") else []
        outs_q = []
        for s_ in qst:
            for g, kw in (("control", {}), ("integrator", {}), ("integrator", {"refine": 7})):
                tt, vv = C.call("sample(quad):%s%s" % (g, kw), st.sample, b.syms[s_["name"]], grid=g, **kw)
                outs_q += [ca.MX(tt), ca.MX(vv)]
        F_q = ca.Function("sq", [obs.view.x, obs.view.p], outs_q) if outs_q else None
        # quadrature states under DirectCollocation: integrator-grid samples nest into the control-grid samples
        qdc = [s_ for s_ in spec["states"] if s_.get("quad")] if cls == "DC" else []
        outs_qdc = []
        for s_ in qdc:
            for g in ("control", "integrator"):
                outs_qdc.append(ca.MX(C.call("sample(quad):%s" % g, st.sample, b.syms[s_["name"]], grid=g)[1]))
        F_qdc = ca.Function("sqdc", [obs.view.x, obs.view.p], outs_qdc) if outs_qdc else None
        # Stage.sampler takes expressions of t, x, z, u only (no horizon symbols, parameters or variables)
        expr_in_sampler = not E.uses(case["expr"], "t0", "T")
        samp = C.call("sampler", st.sampler, [sym for _, sym, _ in (targets if expr_in_sampler else targets[:-1])])
        # algebraic variables through the sampler (DirectCollocation): checked at the collocation times
        ztargets = [(a_["name"], b.syms[a_["name"]], a_["shape"][0]) for a_ in spec.get("algebraics", [])] if cls == "DC" else []
        samp_z = C.call("sampler(z)", st.sampler, [sym for _, sym, _ in ztargets]) if ztargets else None
    except C.RockitRaised as e:
        res["violations"].append(C.exc_violation(ID, e, "|".join(sig.split("|")[:2])))
        return res
    try:
        w, how = feasible_point(spec, obs, rng)
    except C.RockitRaised as e:
        res["violations"].append(C.exc_violation(ID, e, "feasible-point"))
        return res
    if w is None:
        res["status"] = "discarded"
        res["note"] = how
        return res
    vals = [np.array(v, dtype=float) for v in F(w, obs.view.p0)]
    gist = vals[-1].reshape(-1)
    if not all(np.all(np.isfinite(v)) for v in vals) or max(float(np.max(np.abs(v))) for v in vals if v.size) > 1e5:
        res["status"] = "discarded"
        res["note"] = "trajectory blows up at this point (badly conditioned): no meaningful comparison"
        return res
    if F_pw is not None:
        from .c07 import blocks
        vpw = F_pw(w, obs.view.p0)
        vpw = [vpw] if not isinstance(vpw, (list, tuple)) else vpw
        for j, s_ in enumerate(pw):
            ncol = s_["shape"][1]
            v_c, v_i, v_r = [blocks(vpw[3 * j + q], ncol) for q in range(3)]
            res["evals"] += 1
            res["counters"]["nesting_points"] += v_i.shape[0]
            ok = v_c.shape[0] == N + 1 and v_i.shape[0] == N * M + 1 and v_r.shape[0] == N * M * r + 1
            if ok:
                d1 = float(np.max(np.abs(v_r[::r] - v_i)))
                d2 = float(np.max(np.abs(v_i[::M] - v_c)))
            if not ok or max(d1, d2) > 1e-9 * (1 + float(np.max(np.abs(v_c)))):
                res["violations"].append({
                    "kind": "nesting", "mech": "C08|grids-do-not-nest|per-interval",
                    "detail": "%s (include_last=%s): blocks control/integrator/refine%d = %d/%d/%d; refine vs integrator "
                              "%.3g, integrator vs control %.3g" % (s_["name"], bool(s_.get("include_last")), r, v_c.shape[0],
                                                                    v_i.shape[0], v_r.shape[0], d1 if ok else -1,
                                                                    d2 if ok else -1)})
                return res
    if F_q is not None:
        vq = [np.array(v_, dtype=float) for v_ in F_q(w, obs.view.p0)]
        degq = 1 if m.get("intg") == "expl_euler" else 4
        for j, s_ in enumerate(qst):
            t_c, v_c, t_i, v_i, t_7, v_7 = [a_.reshape(-1) for a_ in vq[6 * j:6 * j + 6]]
            if not (np.all(np.isfinite(v_7)) and np.max(np.abs(v_7)) < 1e5):
                continue
            scq = 1 + float(np.max(np.abs(v_7)))
            res["evals"] += 2
            ok = len(t_7) == N * M * 7 + 1 and len(t_i) == N * M + 1 and len(t_c) == N + 1
            if not ok or max(np.max(np.abs(v_7[::7] - v_i)), np.max(np.abs(v_i[::M] - v_c))) > 1e-9 * scq:
                res["violations"].append({"kind": "nesting", "mech": "C08|grids-do-not-nest|quadrature-state",
                                          "detail": "%s: refined / integrator / control samples do not nest (lengths %d/%d/%d)" % (
                                              s_["name"], len(t_7), len(t_i), len(t_c))})
                return res
            for idx in range(N * M):
                tt = t_7[7 * idx:7 * idx + 7] - t_7[7 * idx]
                hh = t_7[7 * idx + 7] - t_7[7 * idx]
                if not hh > 1e-9:
                    continue
                co = np.polyfit(tt / hh, v_7[7 * idx:7 * idx + 7], degq)
                fit = float(np.max(np.abs(np.polyval(co, tt / hh) - v_7[7 * idx:7 * idx + 7])))
                end = float(np.polyval(co, 1.0))
                res["evals"] += 1
                res["counters"]["steps_fitted"] += 1
                if fit > 1e-8 * scq or abs(end - v_7[7 * idx + 7]) > 1e-7 * scq:
                    res["violations"].append({
                        "kind": "quad-step", "mech": "C08|quadrature-step-polynomial",
                        "detail": "%s, integrator step %d: the 7 refined samples %s a degree-%d polynomial (residual %.3g); its "
                                  "value at the end of the step is %.9g, the next integrator sample %.9g" % (
                                      s_["name"], idx, "lie on" if fit <= 1e-8 * scq else "do not lie on", degq, fit, end,
                                      v_7[7 * idx + 7])})
                    return res
    if F_qdc is not None:
        vq = F_qdc(w, obs.view.p0)
        vq = [np.array(v_, dtype=float).reshape(-1) for v_ in (vq if isinstance(vq, (list, tuple)) else [vq])]
        for j, s_ in enumerate(qdc):
            v_c, v_i = vq[2 * j], vq[2 * j + 1]
            if not (np.all(np.isfinite(v_i)) and np.max(np.abs(v_i)) < 1e5):
                continue
            res["evals"] += 1
            res["counters"]["nesting_points"] += len(v_c)
            if len(v_i) != N * M + 1 or len(v_c) != N + 1 or np.max(np.abs(v_i[::M] - v_c)) > 1e-9 * (1 + np.max(np.abs(v_i))):
                res["violations"].append({"kind": "nesting", "mech": "C08|grids-do-not-nest|quadrature-state",
                                          "detail": "%s (DirectCollocation): every M-th integrator-grid sample %s, control-grid samples %s" % (
                                              s_["name"], C.short(v_i[::M]), C.short(v_c))})
                return res
    ph = obs.rb(w)
    ref = model.RefModel(spec, ph)
    tc = ph["tc"]
    deg = 1 if m.get("intg") == "expl_euler" else (4 if cls in ("MS", "SS") else m["degree"])
    scale_all = 1.0
    polys = {}
    for ti, (nm, sym, dim) in enumerate(targets):
        t_c, v_c, t_i, v_i, t_r, v_r, t_7, v_7 = vals[8 * ti:8 * ti + 8]
        t_c, t_i, t_r, t_7 = t_c.reshape(-1), t_i.reshape(-1), t_r.reshape(-1), t_7.reshape(-1)
        v_c, v_i, v_r, v_7 = v_c.reshape(dim, -1), v_i.reshape(dim, -1), v_r.reshape(dim, -1), v_7.reshape(dim, -1)
        sc = 1 + max(np.max(np.abs(v_7)), np.max(np.abs(t_7)))
        scale_all = max(scale_all, sc)
        # (i) nesting
        res["evals"] += 3
        res["counters"]["nesting_points"] += len(t_i) + len(t_c)
        ok = (len(t_r) == N * M * r + 1 and len(t_i) == N * M + 1 and len(t_c) == N + 1)
        if ok:
            d1 = max(np.max(np.abs(t_r[::r] - t_i)), np.max(np.abs(v_r[:, ::r] - v_i)))
            d2 = max(np.max(np.abs(t_i[::M] - t_c)), np.max(np.abs(v_i[:, ::M] - v_c)))
            d3 = np.max(np.abs(t_c - tc))
        if not ok or max(d1, d2, d3) > 1e-9 * sc:
            res["violations"].append({
                "kind": "nesting", "mech": "C08|grids-do-not-nest|%s" % ("expr" if nm == "expr" else "state"),
                "detail": "%s: lengths control/integrator/refine%d = %d/%d/%d (N=%d, M=%d); refine vs integrator %.3g, "
                          "integrator vs control %.3g" % (nm, r, len(t_c), len(t_i), len(t_r), N, M,
                                                        d1 if ok else -1, d2 if ok else -1)})
            return res
        if nm == "expr":
            continue
        # (ii) one polynomial per integrator step
        polys[nm] = []
        for k in range(N):
            for l in range(M):
                idx = k * M + l
                tt = t_7[idx * 7:idx * 7 + 8]
                loc = tt - tt[0]
                h = tt[-1] - tt[0]
                for c in range(dim):
                    yy = v_7[c, idx * 7:idx * 7 + 8]
                    coef = np.polyfit(loc / (abs(h) if h else 1.0), yy, min(deg, 6))
                    fit = np.polyval(coef, loc / (abs(h) if h else 1.0))
                    res["evals"] += 1
                    res["counters"]["steps_fitted"] += 1
                    if np.max(np.abs(fit - yy)) > 1e-8 * sc:
                        res["violations"].append({
                            "kind": "not-polynomial", "mech": "C08|step-not-polynomial-of-scheme-degree",
                            "detail": "%s, interval %d step %d: 8 refined points are not on a polynomial of degree %d "
                                      "(residual %.3g)" % (nm, k, l, deg, np.max(np.abs(fit - yy)))})
                        return res
                    polys[nm].append((tt[0], h, coef))
                    # ends at the next step's start (continuity of the refined trajectory) -- holds by construction of
                    # the sample layout; the start must be the step's start state:
                    if abs(yy[0] - v_i[c, idx]) > 1e-9 * sc or abs(yy[-1] - v_i[c, idx + 1]) > 1e-8 * sc:
                        res["violations"].append({
                            "kind": "step-ends", "mech": "C08|step-polynomial-start-or-end",
                            "detail": "%s interval %d step %d: refined values start at %.9g / end at %.9g, integrator "
                                      "states %.9g / %.9g" % (nm, k, l, yy[0], yy[-1], v_i[c, idx], v_i[c, idx + 1])})
                        return res
    # slopes: right-hand side at the step start (explicit) / at every collocation time (collocation)
    snames = [s["name"] for s in states]
    for k in range(N):
        for l in range(M):
            idx = k * M + l
            if cls == "DC":
                Xc, Z, tr, h, _ = ref.dc_interval(k, l)
                pts = [(tr[j], Xc[j + 1], Z[j]) for j in range(ref.d)]
            else:
                x0 = {n: ph["xi:" + n][idx] for n in snames}
                pts = [(float(ph["ti"][idx]), x0, {})]
            for (tq, xq, zq) in pts:
                env = model.Env(ref, k=k, node=None, x=xq, z=zq, t=tq)
                fv = ref.f(env)
                for s in states:
                    n = s["name"]
                    for c in range(s["shape"][0]):
                        t0s, h, coef = polys[n][idx * s["shape"][0] + c]
                        hh = abs(h) if h else 1.0
                        slope = np.polyval(np.polyder(coef), (tq - t0s) / hh) / hh
                        val = np.polyval(coef, (tq - t0s) / hh)
                        res["evals"] += 1
                        res["counters"]["slopes"] += 1
                        sc = 1 + abs(fv[n][c, 0]) + abs(slope)
                        if abs(slope - fv[n][c, 0]) > 1e-6 * sc * max(1.0, 1.0 / hh):
                            res["violations"].append({
                                "kind": "slope", "mech": "C08|slope-not-rhs|%s" % ("collocation" if cls == "DC" else "explicit"),
                                "detail": "%s interval %d step %d at t=%.6g: polynomial slope %.9g, right-hand side %.9g" % (
                                    n, k, l, tq, slope, fv[n][c, 0])})
                            return res
                        if cls == "DC" and abs(val - xq[n][c, 0]) > 1e-8 * (1 + abs(val)):
                            res["violations"].append({
                                "kind": "helper-state", "mech": "C08|polynomial-misses-helper-state",
                                "detail": "%s interval %d step %d: polynomial at the collocation time %.9g, helper state %.9g" % (
                                    n, k, l, val, xq[n][c, 0])})
                            return res
    # (iii) exactness on polynomial problems
    if case["kind"] == "polynomial":
        from scipy.integrate import solve_ivp
        x0 = np.concatenate([ph["xc:" + n][0].reshape(-1) for n in snames])

        def rhs(t, y):
            env = model.Env(ref, k=0, node=None, x={}, z={}, t=float(t))
            return np.concatenate([np.array([[E.ev(e, env) for e in row] for row in spec["rhs"][n]]).reshape(-1) for n in snames])
        t_7 = vals[6].reshape(-1)
        solv = solve_ivp(rhs, (t_7[0], t_7[-1]), x0, t_eval=None, dense_output=True, rtol=1e-12, atol=1e-13, method="DOP853")
        off = 0
        for ti, (nm, sym, dim) in enumerate(targets[:-1]):
            v_7 = vals[8 * ti + 7].reshape(dim, -1)
            exact = solv.sol(t_7)[off:off + dim]
            off += dim
            res["evals"] += 1
            if np.max(np.abs(exact - v_7)) > 1e-7 * (1 + np.max(np.abs(exact))):
                res["violations"].append({
                    "kind": "not-exact", "mech": "C08|not-exact-on-polynomial-solution|%s" % (
                        m.get("intg") if cls != "DC" else "collocation"),
                    "detail": "%s: solution is a polynomial of degree %d, refined trajectory deviates by %.3g" % (
                        nm, spec["poly_degree"], np.max(np.abs(exact - v_7)))})
                return res
    # (iv) sampler at random times and at grid times
    t_lo, t_hi = float(tc[0]), float(tc[-1])
    if t_hi > t_lo:
        tq = np.sort(rng.uniform(t_lo, t_hi, 20))
        tq = np.concatenate([tq, vals[2].reshape(-1)[:-1]])      # integrator grid times too
        try:
            out = samp(gist, tq)
        except Exception as e:  # noqa
            res["violations"].append(C.exc_violation(ID, C.RockitRaised("sampler call", e), cls))
            return res
        ti_all = vals[2].reshape(-1)
        for tidx, (nm, sym, dim) in enumerate(targets[:-1]):
            got = np.array(out[tidx], dtype=float).reshape(len(tq), dim)
            for qi, t in enumerate(tq):
                step = int(np.clip(np.searchsorted(ti_all, t, side="right") - 1, 0, N * M - 1))
                for c in range(dim):
                    t0s, h, coef = polys[nm][step * dim + c]
                    hh = abs(h) if h else 1.0
                    want = np.polyval(coef, (t - t0s) / hh)
                    res["evals"] += 1
                    res["counters"]["sampler_points"] += 1
                    if abs(got[qi, c] - want) > 1e-7 * (1 + abs(want)):
                        res["violations"].append({
                            "kind": "sampler", "mech": "C08|sampler-differs-from-step-polynomial",
                            "detail": "%s at t=%.6g (integrator step %d): sampler %.9g, polynomial of the refined samples %.9g" % (
                                nm, t, step, got[qi, c], want)})
                        return res
        # expression through the sampler: e evaluated on sampled ingredients
        if any(nn[0] == "s" and nn[1] in {q["name"] for q in spec.get("algebraics", [])} for nn in E.walk(case["expr"])):
            tq = []          # algebraic values at arbitrary times are not among the sampled ingredients
        if not expr_in_sampler:
            tq = []
        got_e = np.array(out[-1], dtype=float).reshape(-1)
        from .c07 import PointEnv
        ucols = {s["name"]: ph["uc:" + s["name"]] for s in spec["controls"]}
        for qi, t in enumerate(tq):
            kint = int(np.clip(np.searchsorted(tc, t, side="right") - 1, 0, N - 1))
            pv = {}
            for tidx, (nm, sym, dim) in enumerate(targets[:-1]):
                pv[nm] = np.array(out[tidx], dtype=float).reshape(len(tq), dim)[qi].reshape(1, dim, 1)
            for nme, arr in ucols.items():
                pv[nme] = arr[kint].reshape(1, -1, 1)
            env = PointEnv(pv, 0, ph["T"], ph["t0"], float(t))
            want = E.ev(case["expr"], env)
            res["evals"] += 1
            if np.isfinite(want) and abs(got_e[qi] - want) > 1e-7 * (1 + abs(want)):
                res["violations"].append({"kind": "sampler-expr", "mech": "C08|sampler-expression",
                                          "detail": "sampler(e) at t=%.6g gives %.9g, e(sampled ingredients) %.9g" % (
                                              t, got_e[qi], want)})
                return res
    # (iv-b) algebraic variables: sampler(z)(gist, t) at the collocation times = sample(z, grid='integrator_roots')
    if samp_z is not None and "tr" in ph:
        tr_all = np.asarray(ph["tr"], dtype=float).reshape(-1)
        ti_pts = vals[2].reshape(-1)
        # (a radau end point is also the start of the next step, where z may jump: left out)
        keep = [i_ for i_, t_ in enumerate(tr_all) if np.min(np.abs(ti_pts - t_)) > 1e-9 * (1 + abs(t_))]
        # (a point with a negative horizon has a decreasing time axis: looking a time up is meaningless there)
        if keep and np.all(np.diff(ti_pts) > 0):
            try:
                outz = samp_z(gist, tr_all[keep])
                outz = [outz] if not isinstance(outz, (list, tuple)) else outz
            except Exception as e:  # noqa
                res["violations"].append(C.exc_violation(ID, C.RockitRaised("sampler(z) call", e), cls))
                return res
            for zi_, (nm, sym, dim) in enumerate(ztargets):
                got = np.array(outz[zi_], dtype=float).reshape(len(keep), dim)
                want = np.asarray(ph["zr:" + nm], dtype=float).reshape(len(tr_all), dim)[keep]
                res["evals"] += 1
                res["counters"]["sampler_z_points"] = res["counters"].get("sampler_z_points", 0) + len(keep)
                bad = np.abs(got - want) > 1e-7 * (1 + np.abs(want))
                if not np.all(np.isfinite(got)) or np.any(bad):
                    j_ = int(np.argmax(np.any(bad | ~np.isfinite(got), axis=1)))
                    res["violations"].append({
                        "kind": "sampler-z", "mech": "C08|sampler-of-algebraic-differs-from-collocation-values",
                        "detail": "%s at the collocation time t=%.6g (root %d of %d): sampler %s, sample(grid='integrator_roots') %s" % (
                            nm, tr_all[keep][j_], keep[j_], len(tr_all), C.short(got[j_]), C.short(want[j_]))})
                    return res
    # sol.sampler: the same function bound to the solver's decision vector
    if case.get("sol_sampler") and m.get("intg") in (None, "rk", "expl_euler") and t_hi > t_lo:
        try:
            b.ocp.solver("ipopt", {"ipopt.max_iter": 0, "ipopt.print_level": 0, "print_time": False,
                                   "ipopt.hessian_approximation": "limited-memory"})
            names_ = [n for n, _, _ in targets[:-1]]
            try:
                sol = b.ocp.solve_limited()
            except Exception:
                sol = b.ocp.non_converged_solution
            s_ocp = b.ocp.sampler([b.syms[n] for n in names_])
            s_sol = sol.sampler([b.syms[n] for n in names_])
            tq2 = np.sort(rng.uniform(t_lo, t_hi, 8))
            a_ = s_sol(tq2)
            b_ = s_ocp(sol.gist, tq2)
            res["evals"] += 1
            res["counters"]["sol_sampler"] = 1
            for xa, xb in zip(a_, b_):
                if not np.allclose(np.array(xa, dtype=float), np.array(xb, dtype=float), rtol=1e-12, atol=1e-12, equal_nan=True):
                    res["violations"].append({"kind": "sol-sampler", "mech": "C08|sol.sampler-differs-from-ocp.sampler",
                                              "detail": "sol.sampler(x)(t) != ocp.sampler(x)(sol.gist, t)"})
                    break
        except Exception as e:  # noqa
            if "do not appear in the constraints and objective" not in str(e):
                res["violations"].append(C.exc_violation(ID, C.RockitRaised("sol.sampler", e), cls))
    res["nontrivial"] = res["counters"]["steps_fitted"] > 0
    res["sample"] = {"spec": C.spec_digest(spec), "refine": r, "feasible_point": how, "kind": case["kind"]}
    return res
