"""Whole-NLP comparison against the reference model (shared by C09, C10, C11, C13, C14, C18)."""
import numpy as np

from . import common as C


def want_grids(spec):
    return ("control", "integrator", "roots") if spec["method"]["cls"] == "DC" else ("control", "integrator")


class Observed:
    """A transcribed OCP with its NLP view and read-backs."""

    def __init__(self, spec, b=None):
        from ..gen import build
        from ..obs import nlp, coords
        self.spec = spec
        self.b = b if b is not None else C.call("declare", build.build_ocp, spec)
        self.view = C.call("transcribe", nlp.NlpView, self.b.ocp)
        self.rb = C.call("sample", coords.ReadBack, self.b, self.view, want_grids(spec))

    def refresh(self):
        """re-read x0 / p0 after set_value / set_initial on the transcribed problem"""
        opti = self.view.opti
        v = self.view
        v.x0 = np.array(opti.debug.value(v.x, opti.initial())).reshape(-1) if v.nx else np.zeros(0)
        v.p0 = np.array(opti.debug.value(v.p, opti.initial())).reshape(-1) if v.np else np.zeros(0)


def full_compare(spec, view, rb, w, p=None, pvals=None, scale_div=None, tag=""):
    """-> (n_evals, violations, info).  Compares objective, dynamic rows and every declared constraint."""
    from ..obs import nlp
    from ..ref import model
    viol = []
    ph = rb(w, p)
    f, atoms = view.atoms(w, p)
    if not C.finite([a[1] for a in atoms], ph["tc"], [f]) or not C.phys_ok(ph):
        return 0, viol, {"discarded": True}
    ref = model.RefModel(spec, ph, pvals)
    rt = 1e-9
    if spec["method"]["cls"] == "SS":
        amp = ref.amplification()
        if amp > 1e5:
            return 0, viol, {"discarded": True, "why": "chaotic recursion (amplification %.2g)" % amp}
        rt = max(1e-9, 1e-13 * amp)
    scale = max([1.0] + [float(np.max(np.abs(v))) for k, v in ph.items() if isinstance(v, np.ndarray) and v.size])
    n = 0
    fe = ref.objective()
    n += 1
    if C.finite([fe]) and abs(f - fe) > rt * (1 + abs(f) + abs(fe)):
        viol.append({"kind": "objective-mismatch", "mech": "objective-mismatch",
                     "detail": "%sNLP objective %.12g, reference %.12g" % (tag, f, fe)})
    dyn = ref.dyn_atoms()
    sys_eq = [(a[0], a[1]) for a in atoms if a[2] == -1 and a[0] == "eq"]
    if C.finite([v for _, v in dyn]):
        un_e, _ = nlp.match_multiset(dyn, sys_eq, scale=scale, rtol=rt)
        n += 1
        if un_e:
            viol.append({"kind": "dynamics-mismatch", "mech": "dynamics-mismatch",
                         "detail": "%s%d of %d reference dynamic residuals unmatched, e.g. %s" % (
                             tag, len(un_e), len(dyn), C.short([dyn[i][1] for i in un_e][:4]))})
    for c in spec.get("constraints", []):
        exp, ninst = ref.constraint_atoms(c)
        if not C.finite([v for _, v in exp]):
            continue
        obs = [(a[0], a[1]) for a in atoms if a[2] == c["cid"]]
        sc = max([scale] + [abs(v) for _, v in exp])
        un_e, un_o = nlp.match_multiset(exp, obs, scale=sc, rtol=rt)
        n += 1
        if un_e or un_o:
            viol.append({"kind": "constraint-mismatch", "mech": "constraint-mismatch",
                         "detail": "%sconstraint id %d (%s, grid=%s): %d expected slacks unmatched %s, %d NLP slacks "
                                   "unmatched %s" % (tag, c["cid"], c["form"], c.get("grid"), len(un_e),
                                                     C.short([exp[i][1] for i in un_e][:4]), len(un_o),
                                                     C.short([obs[i][1] for i in un_o][:4]))})
    return n, viol, {"f": f, "f_ref": fe, "n_dyn": len(dyn)}


def start_point_phys(rb, view):
    """physical read-backs at the NLP start point"""
    return rb(view.x0, view.p0)
