"""C01 -- shooting transcription encodes exactly the chosen integration scheme."""
import numpy as np

from ..gen import ocpgen
from . import common as C

ID = "C01"
LEVEL = "exploration"
RULE = ("Random single-stage OCP specifications (1-3 states incl. vector/matrix, 0-2 controls, global and "
        "per-interval parameters/variables with/without include_last, time-dependent right-hand sides, integral "
        "terms and user quadrature states, fixed/free/parametric t0 and T) x {MultipleShooting, SingleShooting} x "
        "{rk, expl_euler, set_next with DT/DT_control} x N,M edge sizes x every grid class.  Each OCP is transcribed "
        "by rockit and the NLP is evaluated at K random decision vectors; a case is non-trivial when at least one "
        "gap residual / propagated state was compared; distinct = distinct (method, integrator, grid class, N, M, "
        "horizon kinds, feature flags) signatures.")
ASSUMPTIONS = ["numpy reference schemes (RK4, explicit Euler, discrete map) are the specification",
               "control-grid read-back of primitive symbols (ocp.sample) is the observation boundary",
               "control-grid times are taken from the read-back (the partition itself is C06's subject)"]
ANCHORS = ["sampling_method:SamplingMethod.discrete_system", "multiple_shooting:MultipleShooting.add_constraints",
           "single_shooting:SingleShooting.add_constraints"]
CASE_LIMIT = {"quick": 120, "thorough": 300}

PROFILE = {"methods": ["MS", "MS", "SS"], "intgs": ["rk", "rk", "expl_euler", "next"],
           "grids": ["uniform", "geometric", "function", "free", "uniform_loc", "geometric_loc", "density"],
           "quad_states": 0.25}


def gen_cases(rng, tier):
    n = 160 if tier == "quick" else 3000
    K = 6 if tier == "quick" else 12
    cases = []
    for i in range(n):
        spec = ocpgen.gen_stage(rng, PROFILE)
        if spec["dyn"] == "ode" and rng.random() < 0.5:
            spec["objective"] = ocpgen.gen_objective(rng, spec, 1, allow=["integral"])
        cases.append({"spec": spec, "K": K, "seed": rng.getrandbits(32)})
    return cases


def run_case(case):
    from ..gen import build
    from ..obs import nlp, coords
    from ..ref import model
    spec = case["spec"]
    sig = C.config_sig(spec)
    res = {"sig": sig, "evals": 0, "violations": [], "counters": {"gap_atoms": 0, "ss_states": 0, "intg_states": 0,
                                                                 "points": 0}}
    try:
        b = C.call("declare", build.build_ocp, spec)
        view = C.call("transcribe", nlp.NlpView, b.ocp)
        rb = C.call("sample", coords.ReadBack, b, view, ("control", "integrator"))
    except C.RockitRaised as e:
        res["violations"].append(C.exc_violation(ID, e, sig.split("|")[0] + "|" + sig.split("|")[1]))
        return res
    rng = np.random.default_rng(case["seed"])
    xcols = C.state_columns(view, rb, ("xc:",))
    pattern = C.row_pattern(view)
    cls = spec["method"]["cls"]
    N, M = spec["method"]["N"], spec["method"]["M"]
    extra_seen = {}
    for it in range(case["K"]):
        w = view.random_point(rng)   # generic points only: at the (structured) start point atoms coincide
        ph = rb(w)
        f, atoms = view.atoms(w)
        if not C.finite([a[1] for a in atoms], ph["tc"]) or not C.phys_ok(ph):
            res["counters"]["discarded_points"] = res["counters"].get("discarded_points", 0) + 1
            continue
        ref = model.RefModel(spec, ph)
        res["counters"]["points"] += 1
        if res["counters"]["points"] == 1:
            ind = coords.independence_defect(rb, view, spec, w)
            if ind is not None:
                res["evals"] += 1
                res["counters"]["independent_coordinates"] = ind[0]
                if ind[1] != ind[0]:
                    res["violations"].append({
                        "kind": "coordinates-not-independent", "mech": "C01|coordinates-share-decision-variables",
                        "detail": "%d node states / controls / per-interval and global variables are separate degrees "
                                  "of freedom, their read-back spans only %d directions of the decision vector" % ind})
                    break
        scale = max([1.0] + [float(np.max(np.abs(v))) for k, v in ph.items() if isinstance(v, np.ndarray) and v.size])
        if cls == "MS":
            exp = ref.dyn_atoms()
            if not C.finite([v for _, v in exp]):
                continue
            sys_eq = [(a[0], a[1], a[4]) for a in atoms if a[2] == -1 and a[0] == "eq"]
            un_e, un_o = nlp.match_multiset(exp, [(k, v) for k, v, _ in sys_eq], scale=scale, rtol=1e-9)
            res["evals"] += len(exp)
            res["counters"]["gap_atoms"] += len(exp) - len(un_e)
            if un_e:
                res["violations"].append({
                    "kind": "gap-residual-mismatch", "mech": "C01|gap-residual-mismatch",
                    "detail": "point %d: %d of %d expected gap residuals have no matching NLP row; expected %s, "
                              "unmatched NLP equality residuals %s" % (
                                  it, len(un_e), len(exp), C.short([exp[i][1] for i in un_e][:6]),
                                  C.short([sys_eq[i][1] for i in un_o][:6]))})
                break
            # (seen at two points: guards against near-collisions inside the matching tolerance)
            for r_ in [sys_eq[i][2] for i in un_o if pattern[sys_eq[i][2]] & xcols]:
                extra_seen[r_] = extra_seen.get(r_, 0) + 1
            rep = sorted(r_ for r_, n_ in extra_seen.items() if n_ >= 2)
            if rep:
                res["violations"].append({
                    "kind": "extra-dynamic-row", "mech": "C01|extra-dynamic-row",
                    "detail": "system equality rows %s involve node states but are not gap-closing rows" % rep[:5]})
                break
        else:
            amp = ref.amplification()
            if amp > 1e5:
                res["counters"]["discarded_points"] = res["counters"].get("discarded_points", 0) + 1
                continue
            sstol = max(1e-9, 1e-13 * amp)
            Xref = ref.ss_states()
            worst = 0.0
            for s in ref.states:
                got = ph["xc:" + s["name"]]
                for k in range(N + 1):
                    d = np.max(np.abs(got[k] - Xref[k][s["name"]]))
                    worst = max(worst, d)
                    res["evals"] += 1
                    res["counters"]["ss_states"] += 1
            if not np.isfinite(worst) or worst > sstol * (1 + scale):
                res["violations"].append({
                    "kind": "ss-recursion-mismatch", "mech": "C01|ss-recursion-mismatch",
                    "detail": "point %d: SingleShooting state read-back differs from M-step recursion by %.3g" % (
                        it, worst)})
                break
        # states on the integrator grid (both methods): start of every integrator step
        tr = ref.traj()
        worst = 0.0
        for s in ref.states:
            got = ph["xi:" + s["name"]]
            for k in range(N):
                for l in range(M):
                    worst = max(worst, float(np.max(np.abs(got[k * M + l] - tr["subs"][k][l][s["name"]]))))
                    res["counters"]["intg_states"] += 1
        res["evals"] += 1
        if not np.isfinite(worst) or worst > 1e-9 * (1 + scale):
            res["violations"].append({
                "kind": "integrator-state-mismatch", "mech": "C01|integrator-state-mismatch",
                "detail": "point %d: states on the integrator grid differ from the scheme's sub-steps by %.3g" % (
                    it, worst)})
            break
        # user-declared quadrature states: accumulated scheme quadrature at nodes and integrator points
        for s in ref.qstates:
            n = s["name"]
            worst = 0.0
            for k in range(N + 1):
                worst = max(worst, float(np.max(np.abs(ph["qc:" + n][k] - tr["Qnode"][k][n]))))
            for k in range(N):
                for l in range(M):
                    worst = max(worst, float(np.max(np.abs(ph["qi:" + n][k * M + l] - tr["Qsub"][k][l][n]))))
            res["evals"] += 1
            res["counters"]["quad_states"] = res["counters"].get("quad_states", 0) + N + 1 + N * M
            if not np.isfinite(worst) or worst > 1e-9 * (1 + scale):
                res["violations"].append({
                    "kind": "quad-state-mismatch", "mech": "C01|quad-state-mismatch",
                    "detail": "point %d: quadrature state read-back differs from the scheme's quadrature by %.3g" % (
                        it, worst)})
                break
        if res["violations"]:
            break
        if it == 0:
            res["sample"] = {"spec": C.spec_digest(spec), "w0": C.short(w[:6]),
                             "first_expected": C.short([v for _, v in (ref.dyn_atoms()[:4] if cls == "MS" else [])]),
                             "ss_state_node1": C.short(
                                 {n: v.tolist() for n, v in ref.ss_states()[1].items()}) if cls == "SS" else None}
    # ocp.discrete_system(): one control interval with random inputs must be the M-step scheme as well
    if not res["violations"]:
        try:
            import casadi as ca
            Fd = C.call("discrete_system", b.ocp.discrete_system)
            ph = rb(view.random_point(rng))
            ref = model.RefModel(spec, ph)
            if ref.amplification() < 1e3:
                k = int(rng.integers(0, N))
                x0 = {s["name"]: rng.standard_normal(tuple(s["shape"])) for s in ref.states}
                xe, _, _, _, _ = ref.propagate(k, x0)
                xin = np.concatenate([x0[s["name"]].reshape(-1, order="F") for s in ref.states])
                uin = np.concatenate([ph["uc:" + s["name"]][k].reshape(-1, order="F") for s in spec["controls"]]) \
                    if spec["controls"] else np.zeros(0)
                pv = []
                for grp, src in (("params", None), ("variables", None)):
                    for gk in ("", "control", "control+"):
                        for s_ in spec[grp]:
                            key = (s_.get("grid") or "") + ("+" if s_.get("include_last") else "")
                            if key != gk:
                                continue
                            if grp == "params":
                                val = ref.pval[s_["name"]] if not s_.get("grid") else ref.pval[s_["name"]][k]
                            else:
                                val = ph["v:" + s_["name"]] if not s_.get("grid") else ph["vc:" + s_["name"]][k]
                            pv.append(np.array(val, dtype=float).reshape(-1, order="F"))
                        if grp == "variables" and gk == "":
                            # FreeTime horizons become global variables of the transcribed stage (T first, then t0)
                            for key in ("T", "t0"):
                                if spec[key]["kind"] == "free":
                                    pv.append(np.array([ph[key]], dtype=float))
                pin = np.concatenate(pv) if pv else np.zeros(0)
                out = Fd(x0=xin, u=uin, T=float(ref.h[k]), t0=float(ref.tc[k]), p=pin, z0=np.zeros(0))
                got = np.array(out["xf"]).reshape(-1)
                want = np.concatenate([xe[s["name"]].reshape(-1, order="F") for s in ref.states])
                res["evals"] += 1
                res["counters"]["discrete_system"] = 1
                if C.finite(want, got) and np.max(np.abs(got - want)) > 1e-9 * (1 + np.max(np.abs(want))):
                    res["violations"].append({
                        "kind": "discrete-system", "mech": "C01|discrete_system-differs-from-scheme",
                        "detail": "ocp.discrete_system() on interval %d: %s, M-step reference scheme %s" % (
                            k, C.short(got), C.short(want))})
        except C.RockitRaised as e:
            res["violations"].append(C.exc_violation(ID, e, "discrete_system"))
    res["nontrivial"] = res["evals"] > 0
    return res
