"""C01 -- shooting transcription encodes exactly the chosen integration scheme."""
import numpy as np

from ..gen import ocpgen
from . import common as C

ID = "C01"
LEVEL = "exploration"
RULE = ("Random single-stage OCP specifications (1-3 states incl. vector/matrix, 0-2 controls, global and "
        "per-interval parameters/variables with/without include_last, time-dependent right-hand sides, integral "
        "terms and user quadrature states, fixed/free/parametric t0 and T) x {MultipleShooting, SingleShooting} x "
        "{rk, expl_euler, set_next with DT/DT_control} x N,M edge sizes x every grid class.  Each OCP is transcribed "
        "by rockit and the NLP is evaluated at K random decision vectors; a case is non-trivial when at least one "
        "gap residual / propagated state was compared; distinct = distinct (method, integrator, grid class, N, M, "
        "horizon kinds, feature flags) signatures.")
ASSUMPTIONS = ["numpy reference schemes (RK4, explicit Euler, discrete map) are the specification",
               "control-grid read-back of primitive symbols (ocp.sample) is the observation boundary",
               "control-grid times are taken from the read-back (the partition itself is C06's subject)"]
ANCHORS = ["sampling_method:SamplingMethod.discrete_system", "multiple_shooting:MultipleShooting.add_constraints",
           "single_shooting:SingleShooting.add_constraints"]
CASE_LIMIT = {"quick": 120, "thorough": 300}

PROFILE = {"methods": ["MS", "MS", "SS"], "intgs": ["rk", "rk", "expl_euler", "next"],
           "grids": ["uniform", "geometric", "function", "free", "uniform_loc", "geometric_loc", "density"],
           "quad_states": 0.25}


def gen_cases(rng, tier):
    n = 160 if tier == "quick" else 3000
    K = 6 if tier == "quick" else 12
    cases = []
    for i in range(n):
        spec = ocpgen.gen_stage(rng, PROFILE)
        if spec["dyn"] == "ode" and rng.random() < 0.5:
            spec["objective"] = ocpgen.gen_objective(rng, spec, 1, allow=["integral"])
        cases.append({"spec": spec, "K": K, "seed": rng.getrandbits(32)})
    # B-spline signals inside the right-hand side
    nh = 30 if tier == "quick" else 450
    for i in range(nh):
        N = rng.choice([1, 2, 3, 4])
        kinds = ["bpar", "bvar", "par", "parc"]
        use = {k: rng.random() < 0.5 for k in kinds}
        if not (use["bpar"] or use["bvar"]):
            use[rng.choice(["bpar", "bvar"])] = True
        order = list(kinds)
        rng.shuffle(order)
        bpo, bvo = rng.choice([0, 1, 2, 3]), rng.choice([0, 1, 2, 3])
        cases.append({"kind": "signals", "cls": rng.choice(["MS", "MS", "SS"]), "intg": rng.choice(["rk", "rk", "expl_euler"]),
                      "N": N, "M": rng.choice([1, 2, 3]), "use": use, "order": order, "bp_order": bpo, "bv_order": bvo,
                      "bp_coef": [ocpgen.rnd(rng, -2, 2) for _ in range(N + bpo)], "p_val": ocpgen.rnd(rng, -2, 2),
                      "pc_val": [ocpgen.rnd(rng, -2, 2) for _ in range(N)],
                      "weights": {"x": -0.7, "u": 1.0, "bpar": 1.5, "bvar": -2.0, "par": 0.3, "parc": 0.8},
                      "grid": ocpgen.gen_grid(rng, ["uniform", "geometric", "function"], 3),
                      "t0": ocpgen.rnd(rng, -1, 1, 2), "T": ocpgen.rnd(rng, 0.4, 3, 2), "seed": rng.getrandbits(32)})
    return cases


def run_case(case):
    if case.get("kind") == "signals":
        return run_signals(case)
    from ..gen import build
    from ..obs import nlp, coords
    from ..ref import model
    spec = case["spec"]
    sig = C.config_sig(spec)
    res = {"sig": sig, "evals": 0, "violations": [], "counters": {"gap_atoms": 0, "ss_states": 0, "intg_states": 0,
                                                                 "points": 0}}
    try:
        b = C.call("declare", build.build_ocp, spec)
        view = C.call("transcribe", nlp.NlpView, b.ocp)
        rb = C.call("sample", coords.ReadBack, b, view, ("control", "integrator"))
    except C.RockitRaised as e:
        res["violations"].append(C.exc_violation(ID, e, sig.split("|")[0] + "|" + sig.split("|")[1]))
        return res
    rng = np.random.default_rng(case["seed"])
    xcols = C.state_columns(view, rb, ("xc:",))
    pattern = C.row_pattern(view)
    cls = spec["method"]["cls"]
    N, M = spec["method"]["N"], spec["method"]["M"]
    extra_seen = {}
    for it in range(case["K"]):
        w = view.random_point(rng)   # generic points only: at the (structured) start point atoms coincide
        ph = rb(w)
        f, atoms = view.atoms(w)
        if not C.finite([a[1] for a in atoms], ph["tc"]) or not C.phys_ok(ph):
            res["counters"]["discarded_points"] = res["counters"].get("discarded_points", 0) + 1
            continue
        ref = model.RefModel(spec, ph)
        res["counters"]["points"] += 1
        if res["counters"]["points"] == 1:
            ind = coords.independence_defect(rb, view, spec, w)
            if ind is not None:
                res["evals"] += 1
                res["counters"]["independent_coordinates"] = ind[0]
                if ind[1] != ind[0]:
                    res["violations"].append({
                        "kind": "coordinates-not-independent", "mech": "C01|coordinates-share-decision-variables",
                        "detail": "%d node states / controls / per-interval and global variables are separate degrees "
                                  "of freedom, their read-back spans only %d directions of the decision vector" % ind})
                    break
        scale = max([1.0] + [float(np.max(np.abs(v))) for k, v in ph.items() if isinstance(v, np.ndarray) and v.size])
        if cls == "MS":
            exp = ref.dyn_atoms()
            if not C.finite([v for _, v in exp]):
                continue
            sys_eq = [(a[0], a[1], a[4]) for a in atoms if a[2] == -1 and a[0] == "eq"]
            un_e, un_o = nlp.match_multiset(exp, [(k, v) for k, v, _ in sys_eq], scale=scale, rtol=1e-9)
            res["evals"] += len(exp)
            res["counters"]["gap_atoms"] += len(exp) - len(un_e)
            if un_e:
                res["violations"].append({
                    "kind": "gap-residual-mismatch", "mech": "C01|gap-residual-mismatch",
                    "detail": "point %d: %d of %d expected gap residuals have no matching NLP row; expected %s, "
                              "unmatched NLP equality residuals %s" % (
                                  it, len(un_e), len(exp), C.short([exp[i][1] for i in un_e][:6]),
                                  C.short([sys_eq[i][1] for i in un_o][:6]))})
                break
            # (seen at two points: guards against near-collisions inside the matching tolerance)
            for r_ in [sys_eq[i][2] for i in un_o if pattern[sys_eq[i][2]] & xcols]:
                extra_seen[r_] = extra_seen.get(r_, 0) + 1
            rep = sorted(r_ for r_, n_ in extra_seen.items() if n_ >= 2)
            if rep:
                res["violations"].append({
                    "kind": "extra-dynamic-row", "mech": "C01|extra-dynamic-row",
                    "detail": "system equality rows %s involve node states but are not gap-closing rows" % rep[:5]})
                break
        else:
            amp = ref.amplification()
            if amp > 1e5:
                res["counters"]["discarded_points"] = res["counters"].get("discarded_points", 0) + 1
                continue
            sstol = max(1e-9, 1e-13 * amp)
            Xref = ref.ss_states()
            worst = 0.0
            for s in ref.states:
                got = ph["xc:" + s["name"]]
                for k in range(N + 1):
                    d = np.max(np.abs(got[k] - Xref[k][s["name"]]))
                    worst = max(worst, d)
                    res["evals"] += 1
                    res["counters"]["ss_states"] += 1
            if not np.isfinite(worst) or worst > sstol * (1 + scale):
                res["violations"].append({
                    "kind": "ss-recursion-mismatch", "mech": "C01|ss-recursion-mismatch",
                    "detail": "point %d: SingleShooting state read-back differs from M-step recursion by %.3g" % (
                        it, worst)})
                break
        # states on the integrator grid (both methods): start of every integrator step
        tr = ref.traj()
        worst = 0.0
        for s in ref.states:
            got = ph["xi:" + s["name"]]
            for k in range(N):
                for l in range(M):
                    worst = max(worst, float(np.max(np.abs(got[k * M + l] - tr["subs"][k][l][s["name"]]))))
                    res["counters"]["intg_states"] += 1
        res["evals"] += 1
        if not np.isfinite(worst) or worst > 1e-9 * (1 + scale):
            res["violations"].append({
                "kind": "integrator-state-mismatch", "mech": "C01|integrator-state-mismatch",
                "detail": "point %d: states on the integrator grid differ from the scheme's sub-steps by %.3g" % (
                    it, worst)})
            break
        # user-declared quadrature states: accumulated scheme quadrature at nodes and integrator points
        for s in ref.qstates:
            n = s["name"]
            worst = 0.0
            for k in range(N + 1):
                worst = max(worst, float(np.max(np.abs(ph["qc:" + n][k] - tr["Qnode"][k][n]))))
            for k in range(N):
                for l in range(M):
                    worst = max(worst, float(np.max(np.abs(ph["qi:" + n][k * M + l] - tr["Qsub"][k][l][n]))))
            res["evals"] += 1
            res["counters"]["quad_states"] = res["counters"].get("quad_states", 0) + N + 1 + N * M
            if not np.isfinite(worst) or worst > 1e-9 * (1 + scale):
                res["violations"].append({
                    "kind": "quad-state-mismatch", "mech": "C01|quad-state-mismatch",
                    "detail": "point %d: quadrature state read-back differs from the scheme's quadrature by %.3g" % (
                        it, worst)})
                break
        if res["violations"]:
            break
        if it == 0:
            res["sample"] = {"spec": C.spec_digest(spec), "w0": C.short(w[:6]),
                             "first_expected": C.short([v for _, v in (ref.dyn_atoms()[:4] if cls == "MS" else [])]),
                             "ss_state_node1": C.short(
                                 {n: v.tolist() for n, v in ref.ss_states()[1].items()}) if cls == "SS" else None}
    # ocp.discrete_system(): one control interval with random inputs must be the M-step scheme as well
    if not res["violations"]:
        try:
            import casadi as ca
            Fd = C.call("discrete_system", b.ocp.discrete_system)
            ph = rb(view.random_point(rng))
            ref = model.RefModel(spec, ph)
            if ref.amplification() < 1e3:
                k = int(rng.integers(0, N))
                x0 = {s["name"]: rng.standard_normal(tuple(s["shape"])) for s in ref.states}
                xe, _, _, _, _ = ref.propagate(k, x0)
                xin = np.concatenate([x0[s["name"]].reshape(-1, order="F") for s in ref.states])
                uin = np.concatenate([ph["uc:" + s["name"]][k].reshape(-1, order="F") for s in spec["controls"]]) \
                    if spec["controls"] else np.zeros(0)
                pv = []
                for grp, src in (("params", None), ("variables", None)):
                    for gk in ("", "control", "control+"):
                        for s_ in spec[grp]:
                            key = (s_.get("grid") or "") + ("+" if s_.get("include_last") else "")
                            if key != gk:
                                continue
                            if grp == "params":
                                val = ref.pval[s_["name"]] if not s_.get("grid") else ref.pval[s_["name"]][k]
                            else:
                                val = ph["v:" + s_["name"]] if not s_.get("grid") else ph["vc:" + s_["name"]][k]
                            pv.append(np.array(val, dtype=float).reshape(-1, order="F"))
                        if grp == "variables" and gk == "":
                            # FreeTime horizons become global variables of the transcribed stage (T first, then t0)
                            for key in ("T", "t0"):
                                if spec[key]["kind"] == "free":
                                    pv.append(np.array([ph[key]], dtype=float))
                pin = np.concatenate(pv) if pv else np.zeros(0)
                out = Fd(x0=xin, u=uin, T=float(ref.h[k]), t0=float(ref.tc[k]), p=pin, z0=np.zeros(0))
                got = np.array(out["xf"]).reshape(-1)
                want = np.concatenate([xe[s["name"]].reshape(-1, order="F") for s in ref.states])
                res["evals"] += 1
                res["counters"]["discrete_system"] = 1
                if C.finite(want, got) and np.max(np.abs(got - want)) > 1e-9 * (1 + np.max(np.abs(want))):
                    res["violations"].append({
                        "kind": "discrete-system", "mech": "C01|discrete_system-differs-from-scheme",
                        "detail": "ocp.discrete_system() on interval %d: %s, M-step reference scheme %s" % (
                            k, C.short(got), C.short(want))})
        except C.RockitRaised as e:
            res["violations"].append(C.exc_violation(ID, e, "discrete_system"))
    res["nontrivial"] = res["evals"] > 0
    return res


def run_signals(case):
    """B-spline parameters / variables inside the right-hand side under Multiple- and SingleShooting (rk, expl_euler): every
    interval end state is M steps of the scheme with the spline evaluated (Cox-de Boor) at the absolute time of every stage.
    A second recursion freezes every signal at its value at the interval's start node: a transcription that matches that
    one (and not the exact one) is the recorded finding, anything else is a new violation."""
    import casadi as ca
    import rockit
    from ..gen import build
    from ..obs import nlp
    from .c17 import design, spline_eval
    N, M, cls, intg = case["N"], case["M"], case["cls"], case["intg"]
    use, wt = case["use"], case["weights"]
    res = {"sig": "signals|%s-%s|N%dM%d|%s|%s" % (cls, intg, N, M, C.grid_tag(case["grid"]), "+".join(sorted(k for k in use if use[k]))),
           "evals": 0, "violations": [], "counters": {"shooting_steps": 0, "spline_points": 0}}
    rng = np.random.default_rng(case["seed"])
    try:
        ocp = rockit.Ocp(t0=case["t0"], T=case["T"])
        x = ocp.state()
        u = ocp.control()
        syms = {}
        for kind in case["order"]:
            if not use[kind]:
                continue
            if kind == "bpar":
                sy = ocp.parameter(grid="bspline", order=case["bp_order"])
                ocp.set_value(sy, ca.DM(np.array(case["bp_coef"]).reshape(1, -1)))
            elif kind == "bvar":
                sy = ocp.variable(grid="bspline", order=case["bv_order"])
            elif kind == "par":
                sy = ocp.parameter()
                ocp.set_value(sy, case["p_val"])
            else:
                sy = ocp.parameter(grid="control")
                ocp.set_value(sy, ca.DM(np.array(case["pc_val"]).reshape(1, -1)))
            syms[kind] = sy
        rhs = wt["x"] * x + wt["u"] * u
        for kind, sy in syms.items():
            # the signal enters non-linearly as well: the stage times matter
            rhs = rhs + wt[kind] * sy + (0.2 * sy ** 2 if kind in ("bpar", "bvar") else 0)
        ocp.set_der(x, rhs)
        ocp.add_objective(ocp.sum(u ** 2 + sum(ca.sumsqr(sy) for k_, sy in syms.items() if k_ == "bvar")) + ocp.at_tf(x) ** 2)
        Meth = rockit.MultipleShooting if cls == "MS" else rockit.SingleShooting
        ocp.method(Meth(N=N, M=M, intg=intg, grid=build.make_grid(case["grid"])))
        ocp.solver("ipopt", {"ipopt.print_level": 0, "print_time": False})
        view = C.call("transcribe", nlp.NlpView, ocp)
        outs = [C.call("sample", ocp.sample, x, grid="control")[1], C.call("sample", ocp.sample, u, grid="control")[1],
                C.call("sample", ocp.sample, ocp.t, grid="control")[1]]
        names = ["xc", "uc", "tc"]
        if "bvar" in syms:
            outs.append(C.call("sample(refine)", ocp.sample, syms["bvar"], grid="integrator", refine=case["bv_order"] + 2)[1])
            names.append("bvar")
        F = ca.Function("rb", [view.x, view.p], [ca.MX(o) for o in outs])
    except C.RockitRaised as e:
        res["violations"].append(C.exc_violation(ID, e, "signals"))
        return res
    for it in range(3):
        w = view.random_point(rng, 1.0)
        vals = {n: np.array(v, dtype=float) for n, v in zip(names, F(w, view.p0))}
        xc, uc, tc = vals["xc"].reshape(-1), vals["uc"].reshape(-1), vals["tc"].reshape(-1)
        coef = {}
        if "bpar" in syms:
            coef["bpar"] = np.array(case["bp_coef"], dtype=float).reshape(1, -1)
        if "bvar" in syms:
            R_ = case["bv_order"] + 2
            tt = np.concatenate([np.linspace(tc[k], tc[k + 1], M * R_ + 1)[:-1] for k in range(N)] + [tc[-1:]])
            Bm = design(list(tc), case["bv_order"], tt)
            sol_, *_ = np.linalg.lstsq(Bm.T, vals["bvar"].reshape(-1), rcond=None)
            if np.max(np.abs(Bm.T @ sol_ - vals["bvar"].reshape(-1))) > 1e-8 * (1 + np.max(np.abs(sol_))):
                res["status"] = "inconclusive"
                res["note"] = "bspline variable samples are not in the spline space (subject of part C)"
                return res
            coef["bvar"] = sol_.reshape(1, -1)

        def f(k, t, xv, frozen=False):
            out = wt["x"] * xv + wt["u"] * uc[k]
            for kind in syms:
                if kind in coef:
                    cg = coef[kind]
                    dg = cg.shape[1] - N
                    ts_ = tc[k] if frozen else min(max(t, tc[k]), tc[k + 1])
                    # inside interval k a degree-0 signal is its k-th coefficient; t is clipped to the interval (ulp)
                    sv = float(cg[0][k]) if dg == 0 else float(spline_eval(list(tc), dg, cg, np.array([ts_]))[0][0])
                    out += wt[kind] * sv + 0.2 * sv ** 2
                    res["counters"]["spline_points"] += 1
                elif kind == "par":
                    out += wt[kind] * case["p_val"]
                else:
                    out += wt[kind] * case["pc_val"][k]
            return out

        def recursion(frozen):
            exp_, worst_ = [], 0.0
            for k in range(N):
                h = (tc[k + 1] - tc[k]) / M
                xv = xc[k]
                for i in range(M):
                    t = tc[k] + i * h
                    if intg == "expl_euler":
                        xv = xv + h * f(k, t, xv, frozen)
                    else:
                        k1 = f(k, t, xv, frozen)
                        k2 = f(k, t + h / 2, xv + h / 2 * k1, frozen)
                        k3 = f(k, t + h / 2, xv + h / 2 * k2, frozen)
                        k4 = f(k, t + h, xv + h * k3, frozen)
                        xv = xv + h / 6 * (k1 + 2 * k2 + 2 * k3 + k4)
                    res["counters"]["shooting_steps"] += 1
                exp_.append(("eq", abs(xc[k + 1] - xv)))
                worst_ = max(worst_, abs(xc[k + 1] - xv))
            return exp_, worst_

        def agrees(exp_, worst_):
            if cls == "SS":
                return worst_ <= 1e-8 * (1 + np.max(np.abs(xc)))
            _, atoms = view.atoms(w)
            obs = [(a[0], a[1]) for a in atoms if a[0] == "eq"]
            un_e, un_o = nlp.match_multiset(exp_, obs, scale=1 + max(v for _, v in exp_), rtol=1e-8)
            return not (un_e or un_o)

        res["evals"] += 1
        exact = recursion(False)
        if agrees(*exact):
            continue
        what = "reported SingleShooting states" if cls == "SS" else "gap-closing rows"
        if agrees(*recursion(True)):
            res["violations"].append({
                "kind": "signals-frozen", "mech": "C01|bspline-signal-frozen-at-interval-start-under-shooting",
                "detail": "%s follow the %s recursion with every B-spline signal held at its value at the start node of the "
                          "control interval, not evaluated at the stage times (kinds %s, N=%d, M=%d; exact recursion off by "
                          "%.3g)" % (what, intg, sorted(syms), N, M, exact[1])})
        else:
            res["violations"].append({
                "kind": "shooting-with-signals", "mech": "C01|shooting-with-bspline-signals|" + cls,
                "detail": "%s match neither the %s recursion with the splines at the stage times nor the one with the "
                          "signals held at the interval's start node (kinds %s, order %s, off by %.3g)" % (
                              what, intg, sorted(syms), [k_ for k_ in case["order"] if use[k_]], exact[1])})
        return res
    res["nontrivial"] = res["counters"]["spline_points"] > 0
    res["sample"] = {"N": N, "M": M, "method": cls, "intg": intg, "kinds": sorted(syms)}
    return res
