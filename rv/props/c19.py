"""C19 -- to_function reproduces the set_value / set_initial / solve / sample pipeline."""
import numpy as np

from ..gen import ocpgen
from . import common as C

ID = "C19"
LEVEL = "exploration"
RULE = ("Random solver-friendly OCPs (2-3 states, 1-2 controls, mildly nonlinear dynamics with random coefficients, "
        "quadratic tracking cost with a per-interval reference parameter, initial-state parameter, model parameter, box "
        "constraints, non-zero t0) x {MultipleShooting rk, SingleShooting rk, DirectCollocation} x N, M x uniform / "
        "geometric grids.  F = ocp.to_function(name, args, results) with args drawn from {value(x0 parameter), "
        "sample(per-interval parameter, 'control-'), value(model parameter), sampled controls / states as initial "
        "guesses, the guess of a free horizon or the value of a parametric one (also with localized / free time grids), 'z' for DirectCollocation} and results = sampled states, controls and a value expression.  For 2-3 "
        "random argument values F is compared with the imperative pipeline (set_value, set_initial, solve, sol.sample / "
        "sol.value) run on a second instance of the same specification with the same ipopt options; a parameter that is "
        "NOT listed is changed with set_value after the first transcription and before to_function and must keep that "
        "current value.  Cases whose time grid has variables of its own (FreeGrid, localized grids) are compared at the "
        "start point itself (max_iter=0), the others after two iterations or at convergence.  In 40 % of the cases the imperative pipeline is instead ONE OCP, transcribed and solved once before, "
        "that receives every set of values through numpy buffers refreshed in place (what a user's MPC loop does).  "
        "non-trivial = both pipelines converged and at least one output compared; distinct = method x "
        "grid x N x argument selection.")
ASSUMPTIONS = ["ipopt is deterministic: the same NLP, parameter values and start point give the same iterates",
               "tolerance 1e-6 on outputs (ipopt tol 1e-10)"]
ANCHORS = ["direct_method:DirectMethod.to_function", "ocp:Ocp.to_function"]
CASE_LIMIT = {"quick": 240, "thorough": 600}


def gen_cases(rng, tier):
    n = 40 if tier == "quick" else 400
    cases = []
    for i in range(n):
        cls = rng.choice(["MS", "SS", "DC"])
        N = rng.choice([2, 3, 4, 5])
        case = {
            "cls": cls, "N": N, "M": rng.choice([1, 2]), "degree": rng.choice([2, 3]),
            "grid": rng.choice([{"cls": "Uniform"}, {"cls": "Geometric", "growth": ocpgen.rnd(rng, 1.2, 3.0, 2)}]),
            "nx": rng.choice([2, 3]), "t0": ocpgen.rnd(rng, -1, 1, 2), "T": ocpgen.rnd(rng, 1.0, 3.0, 2),
            "coef": [ocpgen.rnd(rng, -0.6, 0.6, 3) for _ in range(6)],
            "args": sorted(rng.sample(["x0", "ref", "q", "u_guess", "x_guess"], rng.randint(1, 4))),
            "zarg": cls == "DC" and rng.random() < 0.0,
            "limited": rng.random() < 0.5, "persistent": rng.random() < 0.4,
            "horizon": rng.choice(["num", "num", "freeT", "paramT", "freet0"]),
            "values": [], "q_first": ocpgen.rnd(rng, 0.2, 1.0, 3), "q_current": ocpgen.rnd(rng, 0.2, 1.0, 3),
            "seed": rng.getrandbits(32)}
        if case["horizon"] != "num":
            # the horizon's guess (FreeTime) or value (parameter) is an argument; grids with variables of their own
            case["grid"] = rng.choice([case["grid"], {"cls": "Uniform", "localize_T": True}, {"cls": "Uniform", "localize_t0": True},
                                       {"cls": "Geometric", "growth": 1.5, "localize_T": True}, {"cls": "Free"}])
            if rng.random() < 0.75:
                case["args"] = sorted(case["args"] + ["Th"])
            if case["grid"].get("cls") == "Free" or case["grid"].get("localize_T") or case["grid"].get("localize_t0"):
                # interval lengths are decision variables of their own: the optimum is flat in them and two converged
                # solves agree to solver tolerance only (1e-6 is not met); the iteration-limited comparison, which senses
                # the start point these arguments are about, is the deciding one
                case["limited"] = True
                # ... and from the start point itself (no iteration): with a singular reduced Hessian ipopt's inertia
                # correction is discontinuous, start points that differ in the last bit (4e-16 was observed between the
                # two pipelines) can part after one step
                case["max_iter"] = 0
        if cls == "SS" and rng.random() < 0.5:
            # the only state guess SingleShooting can take: the initial state
            case["args"] = sorted(set(case["args"]) - {"x_guess"} | {"x0_guess"})
        for _ in range(2 if tier == "quick" else 3):
            case["values"].append({
                "Th": ocpgen.rnd(rng, 1.0, 3.0, 2), "x0_guess": [ocpgen.rnd(rng, -0.5, 0.5, 3) for _ in range(case["nx"])],
                "x0": [ocpgen.rnd(rng, -1, 1, 3) for _ in range(case["nx"])],
                "ref": [ocpgen.rnd(rng, -1, 1, 3) for _ in range(N)],
                "q": ocpgen.rnd(rng, 0.2, 1.0, 3),
                "u_guess": [ocpgen.rnd(rng, -0.5, 0.5, 3) for _ in range(N)],
                "x_guess": [[ocpgen.rnd(rng, -0.5, 0.5, 3) for _ in range(N + 1)] for _ in range(case["nx"])]})
        cases.append(case)
    return cases


def classify(case, v):
    return v.get("mech")


def make_ocp(case):
    import casadi as ca
    import rockit
    from ..gen import build
    nx, N = case["nx"], case["N"]
    c = case["coef"]
    hz = case.get("horizon", "num")
    pT = None
    if hz == "freeT":
        ocp = rockit.Ocp(t0=case["t0"], T=rockit.FreeTime(case["T"]))
    elif hz == "freet0":
        ocp = rockit.Ocp(t0=rockit.FreeTime(case["t0"]), T=case["T"])
    elif hz == "paramT":
        ocp = rockit.Ocp(t0=case["t0"])
        pT = ocp.parameter()
        ocp.set_T(pT)
        ocp.set_value(pT, case["T"])
    else:
        ocp = rockit.Ocp(t0=case["t0"], T=case["T"])
    x = ocp.state(nx)
    u = ocp.control()
    x0p = ocp.parameter(nx)
    ref = ocp.parameter(grid="control")
    q = ocp.parameter()
    rhs = [x[1], -c[0] * ca.sin(x[0]) + c[1] * x[1] + u * q]
    if nx == 3:
        rhs = [x[1], x[2] + c[2] * ca.tanh(x[0]), -c[0] * x[0] + c[1] * x[2] + u * q]
    ocp.set_der(x, ca.vertcat(*rhs))
    ocp.add_objective(ocp.integral(u ** 2 + (x[0] - ref) ** 2 + 0.1 * ca.sumsqr(x)))
    ocp.add_objective(ocp.at_tf(ca.sumsqr(x)))
    if hz == "freeT":
        ocp.add_objective(0.3 * (ocp.T - 2.0) ** 2)
        ocp.subject_to(ocp.T >= 0.5)
    if hz == "freet0":
        ocp.add_objective(0.3 * (ocp.t0 - 0.4) ** 2)
    ocp.subject_to(ocp.at_t0(x) == x0p)
    ocp.subject_to(-3 <= (u <= 3))
    ocp.subject_to(x[0] <= 2.5)
    ocp.set_value(x0p, [0.1] * nx)
    ocp.set_value(ref, [0.0] * N)
    ocp.set_value(q, case["q_first"])
    if case["cls"] == "DC":
        meth = rockit.DirectCollocation(N=N, M=case["M"], degree=case["degree"], grid=build.make_grid(case["grid"]))
    elif case["cls"] == "MS":
        meth = rockit.MultipleShooting(N=N, M=case["M"], intg="rk", grid=build.make_grid(case["grid"]))
    else:
        meth = rockit.SingleShooting(N=N, M=case["M"], intg="rk", grid=build.make_grid(case["grid"]))
    ocp.method(meth)
    # 'limited': stop after two iterations, so that the outputs depend on the start point (initial-guess arguments)
    ocp.solver("ipopt", {"ipopt.print_level": 0, "print_time": False, "ipopt.tol": 1e-10,
                         "ipopt.max_iter": case.get("max_iter", 2) if case.get("limited") else 200})
    return ocp, {"x": x, "u": u, "x0": x0p, "ref": ref, "q": q, "pT": pT}


def imperative_assign(ocp, s, vals, args_sel, case, containers=None):
    """set_value / set_initial of one set of argument values; with `containers` the values travel in numpy buffers
    that are kept between calls and refreshed in place"""
    import casadi as ca

    def box(name, v):
        arr = np.array(ca.DM(v), dtype=float)
        if containers is None:
            return ca.DM(arr)
        if name in containers and containers[name].shape == arr.shape:
            containers[name][:] = arr
        else:
            containers[name] = arr.copy()
        return containers[name]

    ocp.set_value(s["q"], box("q", vals["q"] if "q" in args_sel else case["q_current"]))
    if "x0" in args_sel:
        ocp.set_value(s["x0"], box("x0", vals["x0"]))
    if "ref" in args_sel:
        ocp.set_value(s["ref"], box("ref", ca.DM(vals["ref"]).T))
    if "u_guess" in args_sel:
        ocp.set_initial(s["u"], box("u_guess", ca.DM(vals["u_guess"]).T))
    if "x_guess" in args_sel:
        ocp.set_initial(s["x"], box("x_guess", ca.DM(np.array(vals["x_guess"]))))
    if "x0_guess" in args_sel:
        ocp.set_initial(s["x"], box("x0_guess", vals["x0_guess"]))
    if "Th" in args_sel:
        if case.get("horizon") == "freeT":
            ocp.set_initial(ocp.T, box("Th", vals["Th"]))
        elif case.get("horizon") == "freet0":
            ocp.set_initial(ocp.t0, box("Th", vals["Th"]))
        else:
            ocp.set_value(s["pT"], box("Th", vals["Th"]))


def run_case(case):
    import casadi as ca
    res = {"sig": "%s|%s|%s|N%dM%d|nx%d|%s|%s%s" % (case["cls"], case.get("horizon", "num"), C.grid_tag(case["grid"]), case["N"], case["M"], case["nx"],
                                              "+".join(case["args"]), "limited" if case.get("limited") else "converged",
                                              "|persistent" if case.get("persistent") else ""),
           "evals": 0, "violations": [], "counters": {"function_calls": 0, "outputs_compared": 0, "not_converged": 0}}
    N = case["N"]
    ss = case["cls"] == "SS"
    args_sel = [a for a in case["args"] if not (ss and a == "x_guess")]
    try:
        # pipeline A: to_function
        ocpA, sA = C.call("declare", make_ocp, case)
        arg_exprs = []
        for a in args_sel:
            if a == "x0":
                arg_exprs.append(C.call("value", ocpA.value, sA["x0"]))
            elif a == "q":
                arg_exprs.append(C.call("value", ocpA.value, sA["q"]))
            elif a == "ref":
                arg_exprs.append(C.call("sample", ocpA.sample, sA["ref"], grid="control-")[1])
            elif a == "u_guess":
                arg_exprs.append(C.call("sample", ocpA.sample, sA["u"], grid="control-")[1])
            elif a == "x_guess":
                arg_exprs.append(C.call("sample", ocpA.sample, sA["x"], grid="control")[1])
            elif a == "Th":
                arg_exprs.append(C.call("value", ocpA.value, ocpA.T if case["horizon"] == "freeT" else (
                    ocpA.t0 if case["horizon"] == "freet0" else sA["pT"])))
            elif a == "x0_guess":
                arg_exprs.append(C.call("value", ocpA.value, ocpA.at_t0(sA["x"])))
        results = [ocpA.sample(sA["x"], grid="control")[1], ocpA.sample(sA["u"], grid="control-")[1],
                   ocpA.value(ocpA.at_tf(sA["x"][0]) + ocpA.T), ocpA.sample(ocpA.t, grid="control")[1]]
        # a parameter that is not listed changes after the first transcription and keeps that current value
        if "q" not in args_sel:
            C.call("set_value(transcribed)", ocpA.set_value, sA["q"], case["q_current"])
        F = C.call("to_function", ocpA.to_function, "F", arg_exprs, results)
    except C.RockitRaised as e:
        res["violations"].append(C.exc_violation(ID, e, case["cls"] + "|" + "+".join(args_sel)))
        return res
    persistent = None
    if case.get("persistent"):
        try:
            ocpC, sC = make_ocp(case)
            try:
                ocpC.solve_limited()
            except Exception:
                pass
            persistent = (ocpC, sC, {})
        except Exception:  # noqa
            persistent = None
    for vals in case["values"]:
        ins = []
        for a in args_sel:
            v = vals[a]
            ins.append(ca.DM(v) if a in ("x0", "q", "Th", "x0_guess") else (ca.DM(v).T if a in ("ref", "u_guess") else ca.DM(np.array(v))))
        try:
            outA = F(*ins)
            if not isinstance(outA, (list, tuple)):
                outA = [outA]
            outA = [np.array(o, dtype=float) for o in outA]
        except Exception as e:  # noqa
            res["counters"]["not_converged"] += 1
            continue
        res["counters"]["function_calls"] += 1
        # pipeline B: imperative, on a second instance; pipeline C ('persistent' cases): imperative on ONE instance that
        # was transcribed and solved before and receives every new set of values in buffers that are refreshed in place
        try:
            if persistent is None:
                ocpB, sB = make_ocp(case)
                cont = None
            else:
                ocpB, sB, cont = persistent
            try:
                imperative_assign(ocpB, sB, vals, args_sel, case, cont)
                ocpB._transcribed       # (what solve() does first: a raise here is not a solver failure)
            except Exception as e_:  # noqa
                # assigning supported values must not raise (a failing solve below is 'not converged', this is not)
                res["violations"].append(C.exc_violation(ID, C.RockitRaised("set_value / set_initial / transcribe", e_),
                                                         case["cls"] + "|" + "+".join(args_sel)))
                break
            if case.get("limited"):
                try:
                    sol = ocpB.solve_limited()
                except Exception:
                    sol = ocpB.non_converged_solution
            else:
                sol = ocpB.solve()
            outB = [np.array(sol.sample(sB["x"], grid="control")[1], dtype=float).T,
                    np.array(sol.sample(sB["u"], grid="control-")[1], dtype=float).reshape(1, -1),
                    np.array(sol.value(ocpB.at_tf(sB["x"][0]) + ocpB.T), dtype=float).reshape(1, 1),
                    np.array(sol.sample(ocpB.t, grid="control")[1], dtype=float).reshape(1, -1)]
        except Exception as e:  # noqa
            res["counters"]["not_converged"] += 1
            continue
        if persistent is not None:
            res["counters"]["persistent_rounds"] = res["counters"].get("persistent_rounds", 0) + 1
        for name, a, bb in zip(("states", "controls", "value", "times"), outA, outB):
            a = a.reshape(bb.shape) if a.size == bb.size else a
            res["evals"] += 1
            res["counters"]["outputs_compared"] += 1
            if a.shape != bb.shape or np.max(np.abs(a - bb)) > 1e-6 * (1 + np.max(np.abs(bb))):
                res["violations"].append({
                    "kind": "to_function-differs", "mech": "C19|to_function-differs-from-imperative|%s|%s" % (
                        name, "unlisted-parameter" if "q" not in args_sel else "listed-args"),
                    "detail": "%s: to_function gives %s, imperative pipeline %s (args %s%s)" % (
                        name, C.short(a.reshape(-1)[:6]), C.short(bb.reshape(-1)[:6]), args_sel,
                        "" if "q" in args_sel else "; unlisted parameter q set to %g after transcription" % case["q_current"])})
                break
        if res["violations"]:
            break
    res["nontrivial"] = res["counters"]["outputs_compared"] > 0
    res["sample"] = {"method": case["cls"], "N": N, "args": args_sel, "first_state_row": C.short(outA[0].reshape(-1)[:5])
                     if res["counters"]["function_calls"] else None}
    return res
