"""C02 -- direct collocation rows are the collocation defects."""
import numpy as np

from ..gen import ocpgen
from . import common as C

ID = "C02"
LEVEL = "exploration"
RULE = ("Random ODE / semi-explicit DAE specifications (vector/matrix states, algebraic variables, per-interval and "
        "global parameters/variables, time-dependent right-hand sides and algebraic equations) x DirectCollocation "
        "degree 1..5 x {radau, legendre} x N,M edge sizes x every grid class x fixed/free/parametric horizon.  The "
        "NLP is evaluated at K random decision vectors and every system equality row must equal, as a multiset of "
        "residual magnitudes, the defects computed with independently derived collocation points and Lagrange "
        "weights (derivative defect P'/h - f at every collocation time, algebraic residuals, end-value continuity). "
        "non-trivial = at least one defect compared; distinct = (scheme, degree, grid class, N, M, horizon kinds, "
        "feature flags).")
ASSUMPTIONS = ["numpy Legendre / Radau-IIA points and Lagrange differentiation are the specification "
               "(cross-checked against casadi.collocation_points at start-up)",
               "helper states, algebraic values and interval start states are read through ocp.sample on the "
               "integrator / integrator_roots / control grids"]
ANCHORS = ["direct_collocation:DirectCollocation.add_constraints", "direct_collocation:DirectCollocation.add_variables"]

PROFILE = {"methods": ["DC"], "alg": 0.5,
           "grids": ["uniform", "geometric", "function", "free", "uniform_loc", "geometric_loc", "density"],
           "quad_states": 0.2}


def gen_cases(rng, tier):
    n = 140 if tier == "quick" else 2500
    K = 5 if tier == "quick" else 10
    cases = []
    for i in range(n):
        spec = ocpgen.gen_stage(rng, PROFILE)
        if rng.random() < 0.4:
            spec["objective"] = ocpgen.gen_objective(rng, spec, 1, allow=["integral"])
        cases.append({"spec": spec, "K": K, "seed": rng.getrandbits(32)})
    return cases


def worker_init():
    import casadi as ca
    from ..ref import colloc
    for d in range(1, 6):
        for sch in ("radau", "legendre"):
            a = np.array(colloc.points(d, sch))
            b = np.array(ca.collocation_points(d, sch))
            assert np.max(np.abs(a - b)) < 1e-12, (d, sch, a, b)


def run_case(case):
    from ..gen import build
    from ..obs import nlp, coords
    from ..ref import model
    spec = case["spec"]
    sig = C.config_sig(spec)
    res = {"sig": sig, "evals": 0, "violations": [],
           "counters": {"defect_atoms": 0, "points": 0, "root_times": 0}}
    try:
        b = C.call("declare", build.build_ocp, spec)
        view = C.call("transcribe", nlp.NlpView, b.ocp)
        rb = C.call("sample", coords.ReadBack, b, view, ("control", "integrator", "roots"))
    except C.RockitRaised as e:
        res["violations"].append(C.exc_violation(ID, e, "|".join(sig.split("|")[:2])))
        return res
    rng = np.random.default_rng(case["seed"])
    xcols = C.state_columns(view, rb, ("xc:", "xi:", "xr:", "zr:"))
    pattern = C.row_pattern(view)
    N, M = spec["method"]["N"], spec["method"]["M"]
    extra_seen = {}
    for it in range(case["K"]):
        w = view.random_point(rng)
        ph = rb(w)
        f, atoms = view.atoms(w)
        if not C.finite([a[1] for a in atoms], ph["tc"]) or not C.phys_ok(ph):
            res["counters"]["discarded_points"] = res["counters"].get("discarded_points", 0) + 1
            continue
        ref = model.RefModel(spec, ph)
        exp = ref.dyn_atoms()
        if not C.finite([v for _, v in exp]):
            continue
        res["counters"]["points"] += 1
        scale = max([1.0] + [float(np.max(np.abs(v))) for k, v in ph.items() if isinstance(v, np.ndarray) and v.size]
                    + [v for _, v in exp])
        sys_eq = [(a[0], a[1], a[4]) for a in atoms if a[2] == -1 and a[0] == "eq"]
        un_e, un_o = nlp.match_multiset(exp, [(k, v) for k, v, _ in sys_eq], scale=scale, rtol=1e-9)
        res["evals"] += len(exp)
        res["counters"]["defect_atoms"] += len(exp) - len(un_e)
        if un_e:
            res["violations"].append({
                "kind": "collocation-defect-mismatch", "mech": "C02|collocation-defect-mismatch",
                "detail": "point %d: %d of %d expected defects have no matching NLP row; expected %s, unmatched NLP "
                          "equality residuals %s" % (it, len(un_e), len(exp), C.short([exp[i][1] for i in un_e][:6]),
                                                     C.short([sys_eq[i][1] for i in un_o][:6]))})
            break
        # a leftover row that involves states must be seen at two points: with thousands of generic residuals a
        # near-collision inside the matching tolerance can leave the wrong partner unmatched at a single point
        for r_ in [sys_eq[i][2] for i in un_o if pattern[sys_eq[i][2]] & xcols]:
            extra_seen[r_] = extra_seen.get(r_, 0) + 1
        rep = sorted(r_ for r_, n_ in extra_seen.items() if n_ >= 2)
        if rep:
            res["violations"].append({
                "kind": "extra-dynamic-row", "mech": "C02|extra-dynamic-row",
                "detail": "system equality rows %s involve states/helper states but are no collocation defect" % rep[:5]})
            break
        # reported collocation times = t_start + h*tau_j
        d = ref.d
        worst = 0.0
        for k in range(N):
            for i in range(M):
                _, _, tr, _, _ = ref.dc_interval(k, i)
                got = ph["tr"][(k * M + i) * d:(k * M + i + 1) * d]
                worst = max(worst, float(np.max(np.abs(np.array(tr) - got))))
                res["counters"]["root_times"] += d
        res["evals"] += 1
        if worst > 1e-9 * (1 + scale):
            res["violations"].append({"kind": "root-time-mismatch", "mech": "C02|root-time-mismatch",
                                      "detail": "sampled collocation times differ from t_start+h*tau by %.3g" % worst})
            break
        if it == 0:
            ind = coords.independence_defect(rb, view, spec, w)
            if ind is not None:
                res["evals"] += 1
                res["counters"]["independent_coordinates"] = ind[0]
                if ind[1] != ind[0]:
                    res["violations"].append({
                        "kind": "coordinates-not-independent", "mech": "C02|coordinates-share-decision-variables",
                        "detail": "%d states / helper states / algebraic values / controls / variables are separate "
                                  "degrees of freedom of the collocation scheme, their read-back spans only %d "
                                  "directions of the decision vector" % ind})
                    break
        if it == 0:
            res["sample"] = {"spec": C.spec_digest(spec), "w0": C.short(w[:6]),
                             "first_expected_defects": C.short([v for _, v in exp[:5]]), "n_defects": len(exp)}
    res["nontrivial"] = res["evals"] > 0
    return res
