"""Shared pieces of the property monitors."""
import re
import traceback

import numpy as np


class RockitRaised(Exception):
    """An exception escaped from a call into rockit on an input inside the support matrix."""

    def __init__(self, phase, exc):
        Exception.__init__(self, "%s: %s" % (phase, exc))
        self.phase = phase
        self.exc = exc
        self.tb = traceback.format_exc()


def norm_msg(e):
    s = "%s:%s" % (type(e).__name__, str(e).strip().split("\n")[0])
    s = re.sub(r"0x[0-9a-f]+", "#", s)
    s = re.sub(r"[-+]?\d+(\.\d+)?(e[-+]?\d+)?", "#", s)
    return s[:90]


def call(phase, fn, *a, **kw):
    try:
        return fn(*a, **kw)
    except Exception as e:  # noqa
        raise RockitRaised(phase, e)


def exc_violation(pid, err, features=""):
    return {"kind": "exception", "mech": "%s|exception|%s|%s|%s" % (pid, err.phase, norm_msg(err.exc), features),
            "detail": "rockit raised during '%s' on a supported input: %r\n%s" % (err.phase, err.exc, err.tb[-1500:])}


def grid_tag(g):
    g = g or {"cls": "Uniform"}
    tag = g.get("cls", "Uniform")
    if g.get("local"):
        tag += "-local"
    if g.get("localize_t0"):
        tag += "+lt0"
    if g.get("localize_T"):
        tag += "+lT"
    if g.get("min") is not None or g.get("max") is not None:
        tag += "+mm"
    return tag


def config_sig(spec, extra=""):
    m = spec["method"]
    feats = []
    if any(p.get("grid") == "control" for p in spec.get("params", [])):
        feats.append("pc")
    if any(p.get("include_last") for p in spec.get("params", []) + spec.get("variables", [])):
        feats.append("+")
    if any(v.get("grid") == "control" for v in spec.get("variables", [])):
        feats.append("vc")
    if any(not p.get("grid") for p in spec.get("params", [])):
        feats.append("p")
    if any(not p.get("grid") for p in spec.get("variables", [])):
        feats.append("v")
    if spec.get("algebraics"):
        feats.append("z")
    if any(s["shape"][1] > 1 for s in spec.get("states", []) + spec.get("params", []) + spec.get("variables", [])):
        feats.append("mat")
    if any(s.get("quad") for s in spec.get("states", [])):
        feats.append("q")
    meth = m["cls"]
    if meth in ("MS", "SS"):
        meth += "-" + ("next" if spec.get("dyn") == "next" else str(m.get("intg")))
    if meth == "DC":
        meth += "-%s%d" % (m.get("scheme", "radau")[0], m.get("degree", 4))
    return "%s|%s|N%dM%d|t0:%s|T:%s|%s|%s" % (meth, grid_tag(m.get("grid")), m["N"], m.get("M", 1),
                                              spec["t0"]["kind"], spec["T"]["kind"], "".join(feats), extra)


def finite(*arrs):
    for a in arrs:
        a = np.asarray(a, dtype=float)
        if not np.all(np.isfinite(a)) or (a.size and np.max(np.abs(a)) > 1e8):
            return False
    return True


def short(x, n=6):
    if isinstance(x, float):
        return float("%.*g" % (n, x))
    if isinstance(x, (list, tuple)):
        return [short(v, n) for v in x]
    if isinstance(x, np.ndarray):
        return short(x.tolist(), n)
    return x


def spec_digest(spec):
    m = spec["method"]
    return {"method": m, "t0": spec["t0"], "T": spec["T"],
            "states": [(s["name"], s["shape"]) for s in spec.get("states", [])],
            "controls": [(s["name"], s["shape"]) for s in spec.get("controls", [])],
            "params": [(s["name"], s["shape"], s.get("grid"), s.get("include_last", False))
                       for s in spec.get("params", [])],
            "variables": [(s["name"], s["shape"], s.get("grid"), s.get("include_last", False))
                          for s in spec.get("variables", [])],
            "n_constraints": len(spec.get("constraints", [])), "n_objective": len(spec.get("objective", []))}


def state_columns(view, rb, prefix=("xc:", "xi:", "xr:")):
    """columns of w on which the state read-backs depend (structurally)"""
    import casadi as ca
    ex = [ca.vec(e) for n, e in zip(rb.names, rb.exprs) if n.startswith(prefix)]
    if not ex:
        return set()
    sp = ca.jacobian(ca.vertcat(*ex), view.x).sparsity()
    cols = set()
    for c in range(sp.size2()):
        if sp.colind()[c + 1] > sp.colind()[c]:
            cols.add(c)
    return cols


def row_pattern(view):
    """for every NLP row the set of columns of w it depends on"""
    import casadi as ca
    sp = ca.jacobian(view.adv.g, view.x).sparsity()
    rows = [set() for _ in range(view.ng)]
    colind, row = sp.colind(), sp.row()
    for c in range(sp.size2()):
        for k in range(colind[c], colind[c + 1]):
            rows[row[k]].add(c)
    return rows


def phys_ok(ph, limit=1e6):
    """every physical read-back finite and of moderate size (a trajectory that blows up at a random point makes every
    relative comparison meaningless: round-off differences between two correct evaluations are amplified alike)"""
    for k, v in ph.items():
        a = np.asarray(v, dtype=float)
        if a.size and (not np.all(np.isfinite(a)) or float(np.max(np.abs(a))) > limit):
            return False
    return True
