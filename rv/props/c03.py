"""C03 -- discretised dynamics and integrals converge to the continuous-time model."""
import copy

import numpy as np

from ..gen import ocpgen, expr as E
from . import common as C

ID = "C03"
LEVEL = "exploration"
RULE = ("Bounded restatement of the asymptotic claim.  Random smooth ODEs (index-1 DAEs z = phi(x,t) for collocation / "
        "idas) with explicit time dependence, non-zero t0, random control sequences, global and per-interval parameters, "
        "uniform / geometric / function grids, short horizons (mild stiffness).  For M in {1,2,4,8,16} the SAME problem is "
        "transcribed and the end state and the value of ocp.integral implied by the transcription are obtained at a "
        "dynamically feasible point with a fixed initial state and control sequence (SingleShooting read-back for rk / "
        "expl_euler / cvodes / idas / collocation integrators -- primal evaluation only; Newton on the NLP's own dynamic "
        "rows for DirectCollocation) and compared with scipy solve_ivp (rtol 1e-12).  Rule: the least-squares slope of "
        "log(error) over log(M), using the M with error above the round-off floor, must be <= -(p - 0.6) with p the "
        "classical order (1, 4, 2d-1, 2d); errors at the floor only need to stay there, and a case whose error has vanished "
        "for the finest M while at most two M were solidly (10x) above the floor does not measure the order; CasADi integrators must be within "
        "1e3 x the requested tolerance.  ocp.sys_simulator and ocp.discrete_system are evaluated on the same inputs and "
        "must describe the same flow.  A second family puts a grid='bspline' parameter (order 1-3) into the "
        "right-hand side and measures the same convergence in M against the exact flow and against the flow with the "
        "signal frozen over each control interval (three-way decision).  non-trivial = order measured on >= 2 usable M or floor reached; distinct = method x "
        "integrator x degree x grid.")
ASSUMPTIONS = ["scipy solve_ivp (DOP853 / Radau, rtol 1e-12) is the exact flow", "one-sided test with margin 0.6 "
               "(super-convergence accepted); short horizons keep h*L small so that M>=2 is in the asymptotic regime"]
ANCHORS = ["sampling_method:SamplingMethod.intg_rk", "sampling_method:SamplingMethod.intg_builtin", "ocp:Ocp.sys_simulator"]
CASE_LIMIT = {"quick": 300, "thorough": 600}

MS_LIST = [1, 2, 4, 8, 16]


def gen_cases(rng, tier):
    n = 40 if tier == "quick" else 300
    cases = []
    kinds = [("SS", "rk"), ("SS", "expl_euler"), ("SS", "cvodes"), ("SS", "collocation"), ("DC", "radau"), ("DC", "legendre"),
             ("SS", "idas")]
    for i in range(n):
        cls, sub = kinds[i % len(kinds)] if i < 2 * len(kinds) else rng.choice(kinds)
        prof = {"methods": [cls], "intgs": ["rk"], "grids": ["uniform", "geometric", "function"], "alg": 0.0,
                "t0_kinds": ["num"], "T_kinds": ["num"], "N": [1, 2, 3], "M": [1], "allow_matrix": False, "quad_states": 0.0,
                "max_states": 2, "max_controls": 1, "time_in_rhs": 1.0, "global_pv": True, "per_interval": True,
                "degrees": [1, 2, 3] if tier == "quick" else [1, 2, 3, 4]}
        if cls == "DC" or sub == "idas":
            prof["alg"] = 0.5 if cls == "DC" else 0.0
        spec = ocpgen.gen_stage(rng, prof)
        spec["variables"] = []       # (variables would only add more fixed numbers)
        lvv = set()
        spec["T"] = {"kind": "num", "val": ocpgen.rnd(rng, 0.2, 0.7, 3)}
        if cls == "SS":
            spec["method"]["intg"] = sub
            if sub in ("cvodes", "idas"):
                spec["method"]["intg_options"] = {"abstol": 1e-10, "reltol": 1e-10, "quad_err_con": True}
        else:
            spec["method"]["scheme"] = sub
        # damp the model: moderate Lipschitz constant
        def damp(mat):
            return [[["*", ["c", 0.7], e] for e in row] for row in mat]
        # remove variable leaves from the right-hand sides (variables list emptied above)
        def strip_vars(node):
            if node[0] == "s" and node[1].startswith("v"):
                return ["c", 0.3]
            if node[0] in E.UNARY:
                return [node[0], strip_vars(node[1])]
            if node[0] in E.BINARY:
                return [node[0], strip_vars(node[1]), strip_vars(node[2])]
            return node
        for nme in list(spec["rhs"]):
            spec["rhs"][nme] = damp([[strip_vars(e) for e in row] for row in spec["rhs"][nme]])
        for a in spec.get("alg", []):
            a["expr"] = strip_vars(a["expr"])
        lv = spec["leaves"]
        integrand = E.rand_expr(rng, lv["x"] + lv["u"] + [["t"]], depth=2)
        integrand = strip_vars(integrand)
        if not any(nn[0] == "s" and nn[1].startswith("x") for nn in E.walk(integrand)):
            integrand = ["+", integrand, ["sq", rng.choice(lv["x"])]]
        spec["objective"] = [["integral", integrand]]
        x0 = {s["name"]: [[ocpgen.rnd(rng, -1, 1)] for _ in range(s["shape"][0])] for s in spec["states"]}
        N = spec["method"]["N"]
        U = {s["name"]: [[ocpgen.rnd(rng, -1, 1) for _ in range(N)] for _ in range(s["shape"][0])] for s in spec["controls"]}
        cases.append({"spec": spec, "x0": x0, "U": U, "seed": rng.getrandbits(32), "sub": sub})
    # a B-spline parameter (a time-varying input) inside the right-hand side
    skinds = [("SS", "rk"), ("MS", "rk"), ("SS", "expl_euler"), ("DC", "radau"), ("DC", "legendre")]
    for i in range(10 if tier == "quick" else 100):
        cls, sub = skinds[i % len(skinds)]
        N = rng.choice([1, 2, 3])
        d = rng.choice([1, 2, 3])
        cases.append({"kind": "signals", "cls": cls, "sub": sub, "N": N, "order": d, "degree": rng.choice([1, 2, 3]),
                      "coef": [ocpgen.rnd(rng, -2, 2) for _ in range(N + d)], "a": ocpgen.rnd(rng, -1.5, 0.5),
                      "x0": ocpgen.rnd(rng, -1, 1), "t0": ocpgen.rnd(rng, -1, 1, 2), "T": ocpgen.rnd(rng, 0.3, 0.9, 2),
                      "grid": ocpgen.gen_grid(rng, ["uniform", "geometric", "function"], 3), "seed": rng.getrandbits(32)})
    return cases


def classify(case, v):
    return v.get("mech")


def exact_flow(spec, x0, U, integrand):
    """solve_ivp over the control grid with piecewise constant controls; returns (x_end dict, integral)"""
    from scipy.integrate import solve_ivp
    from scipy.optimize import fsolve
    from ..ref import grids as G, model
    N = spec["method"]["N"]
    t0, T = spec["t0"]["val"], spec["T"]["val"]
    tc = t0 + T * np.array(G.normalized(spec["method"]["grid"], N))
    snames = [s["name"] for s in spec["states"]]
    shapes = [s["shape"] for s in spec["states"]]
    znames = [s["name"] for s in spec.get("algebraics", [])]
    zshapes = [s["shape"] for s in spec.get("algebraics", [])]
    # a RefModel without a transcription: only used for symbol lookup (parameters, controls)
    ph = {"tc": tc, "T": T, "t0": t0}
    for s in spec["controls"]:
        ph["uc:" + s["name"]] = np.array(U[s["name"]], dtype=float).T.reshape(N, s["shape"][0], 1)
    ref = model.RefModel(dict(spec, method=dict(spec["method"], cls="SS", intg="rk")), ph)

    def unpack(y):
        out, o = {}, 0
        for n, shp in zip(snames, shapes):
            out[n] = y[o:o + shp[0]].reshape(shp)
            o += shp[0]
        return out

    def zsolve(k, xd, t, zguess):
        if not znames:
            return {}, zguess

        def resid(zz):
            zd, o = {}, 0
            for n, shp in zip(znames, zshapes):
                zd[n] = zz[o:o + shp[0]].reshape(shp)
                o += shp[0]
            env = model.Env(ref, k=k, x=xd, z=zd, t=t)
            return np.array(ref.alg(env))
        zz = fsolve(resid, zguess, xtol=1e-14)
        zd, o = {}, 0
        for n, shp in zip(znames, zshapes):
            zd[n] = zz[o:o + shp[0]].reshape(shp)
            o += shp[0]
        return zd, zz

    y = np.concatenate([np.array(x0[n], dtype=float).reshape(-1) for n in snames] + [np.zeros(1)])
    zg = [np.zeros(sum(s[0] for s in zshapes))]
    for k in range(N):
        def rhs(t, yy, k=k):
            xd = unpack(yy)
            zd, zg[0] = zsolve(k, xd, t, zg[0])
            env = model.Env(ref, k=k, x=xd, z=zd, t=float(t))
            f = ref.f(env)
            q = E.ev(integrand, env)
            return np.concatenate([f[n].reshape(-1) for n in snames] + [np.array([q])])
        sol = solve_ivp(rhs, (tc[k], tc[k + 1]), y, method="DOP853", rtol=1e-12, atol=1e-13)
        if not sol.success:
            return None, None
        y = sol.y[:, -1]
    return unpack(y[:-1]), float(y[-1])


def implied(spec, M, x0, U, rng):
    """transcribe with M sub-steps and read the implied end state / integral at the point with given x0, U"""
    from . import engine, c08
    from ..obs import transport
    sp = copy.deepcopy(spec)
    sp["method"]["M"] = M
    obs = engine.Observed(sp)
    view = obs.view
    cls = sp["method"]["cls"]
    N = sp["method"]["N"]
    w = np.zeros(view.nx)
    # put x(t0) and the controls in place (read-backs are affine in those variables)
    names = [n for n in obs.rb.names if n.split(":")[0] in ("uc",)] + (["xc:" + s["name"] for s in sp["states"]] if cls == "DC" else [])
    import casadi as ca
    if cls == "SS":
        extra = [("x0:" + s["name"], obs.b.stage.value(obs.b.stage.at_t0(obs.b.syms[s["name"]])), 1) for s in sp["states"]]
        from ..obs import coords
        obs.rb = coords.ReadBack(obs.b, view, engine.want_grids(sp), None, extra)
        names = [n for n in obs.rb.names if n.split(":")[0] in ("uc", "x0")]
    aff = transport.Affine(obs, names)
    target = aff.values(w)
    parts = aff.split(target)
    for s in sp["controls"]:
        arr = np.array(U[s["name"]], dtype=float)            # (n, N)
        full = np.concatenate([arr, arr[:, -1:]], axis=1)      # control grid read-back repeats the last interval
        parts["uc:" + s["name"]] = full.reshape(-1, order="F")
    for s in sp["states"]:
        v0 = np.array(x0[s["name"]], dtype=float).reshape(-1)
        if cls == "SS":
            parts["x0:" + s["name"]] = v0
        else:
            cur = parts["xc:" + s["name"]].copy()
            cur[:len(v0)] = v0
            parts["xc:" + s["name"]] = cur
    tgt = np.concatenate([parts[n] for n in aff.names])
    # weights: for DC only node 0 of xc is prescribed -> solve with the prescribed rows only
    rows = []
    o = 0
    for n, sz in zip(aff.names, aff.sizes):
        if n.startswith("xc:"):
            nst = [s for s in sp["states"] if s["name"] == n[3:]][0]["shape"][0]
            rows += list(range(o, o + nst))
        else:
            rows += list(range(o, o + sz))
        o += sz
    sol, *_ = np.linalg.lstsq(aff.J[rows], tgt[rows] - aff.c[rows], rcond=None)
    w = sol
    if cls == "DC":
        w, how = c08.feasible_point(sp, obs, rng, w0=w)
        if w is None:
            return None
    ph = obs.rb(w)
    f = view.eval(w)[0]
    xend = {s["name"]: ph["xc:" + s["name"]][N].reshape(s["shape"]) for s in sp["states"]}
    return xend, f, obs


def run_signals(case):
    """x' = a x + w(t) + 0.3 sin(w(t)) with w a grid='bspline' parameter of order 1..3: the end state implied by the
    transcription for M = 1, 2, 4, 8, 16 converges to the exact flow at the scheme's order.  A second reference freezes w at
    its value at the start of every control interval: a transcription that converges to THAT flow instead is the recorded
    finding (signals held constant over the control interval by the shooting integrators); anything else is a violation."""
    import casadi as ca
    import rockit
    from scipy.integrate import solve_ivp
    from ..gen import build
    from ..ref import grids as G
    from .c17 import spline_eval
    cls, sub, N, d = case["cls"], case["sub"], case["N"], case["order"]
    if cls == "DC":
        deg = case["degree"]
        order = 2 * deg - 1 if sub == "radau" else 2 * deg
        tag = "DC-%s%d" % (sub[0], deg)
    else:
        order = {"rk": 4, "expl_euler": 1}[sub]
        tag = "%s-%s" % (cls, sub)
    res = {"sig": "signals|%s|%s|N%d|order%d" % (tag, C.grid_tag(case["grid"]), N, d), "evals": 0, "violations": [],
           "counters": {"transcriptions": 0, "orders_measured": 0, "at_floor": 0, "signal_cases": 1}}
    a, x0, t0, T = case["a"], case["x0"], case["t0"], case["T"]
    tc = t0 + T * np.array(G.normalized(case["grid"], N))
    coef = np.array(case["coef"], dtype=float).reshape(1, -1)

    def w_at(t):
        return float(spline_eval(list(tc), d, coef, np.array([min(max(t, tc[0]), tc[-1])]))[0][0])

    def flow(frozen):
        x = x0
        for k in range(N):
            wk = w_at(tc[k])
            f = (lambda t, y: [a * y[0] + wk + 0.3 * np.sin(wk)]) if frozen else (
                lambda t, y: [a * y[0] + w_at(t) + 0.3 * np.sin(w_at(t))])
            so = solve_ivp(f, (tc[k], tc[k + 1]), [x], method="DOP853", rtol=1e-12, atol=1e-13)
            if not so.success:
                return None
            x = float(so.y[0, -1])
        return x

    xe, xf = flow(False), flow(True)
    if xe is None or xf is None:
        res["status"] = "discarded"
        res["note"] = "reference flow failed"
        return res
    errs_e, errs_f = [], []
    for M in MS_LIST:
        try:
            ocp = rockit.Ocp(t0=t0, T=T)
            x = ocp.state()
            w = ocp.parameter(grid="bspline", order=d)
            ocp.set_value(w, ca.DM(coef))
            ocp.set_der(x, a * x + w + 0.3 * ca.sin(w))
            ocp.subject_to(ocp.at_t0(x) == x0)
            ocp.solver("ipopt", {"ipopt.print_level": 0, "print_time": False, "ipopt.tol": 1e-13,
                                 "ipopt.constr_viol_tol": 1e-13, "ipopt.max_iter": 50})
            g_ = build.make_grid(case["grid"])
            if cls == "DC":
                ocp.method(rockit.DirectCollocation(N=N, M=M, degree=case["degree"], scheme=sub, grid=g_))
            else:
                Meth = rockit.MultipleShooting if cls == "MS" else rockit.SingleShooting
                ocp.method(Meth(N=N, M=M, intg=sub, grid=g_))
            C.call("transcribe", lambda: ocp._transcribed)
            try:
                sol = ocp.solve()
            except Exception:
                res["status"] = "discarded"
                res["note"] = "square feasibility problem not solved for M=%d" % M
                return res
            xend = float(np.array(sol.sample(x, grid="control")[1]).reshape(-1)[-1])
        except C.RockitRaised as e:
            res["violations"].append(C.exc_violation(ID, e, "signals|" + tag))
            return res
        res["counters"]["transcriptions"] += 1
        errs_e.append(abs(xend - xe))
        errs_f.append(abs(xend - xf))
    scale = 1 + abs(xe)
    floor = 2e-9 * scale

    def converges(errs):
        use = [(M, e) for M, e in zip(MS_LIST, errs) if e > floor and M >= 2]
        if len(use) < 2:
            return errs[-1] <= max(floor, 1e-9 * scale), None
        if len([u_ for u_ in use if u_[1] > 10 * floor]) <= 2 and errs[-1] <= floor and all(
                b_ <= 1.5 * a_ for a_, b_ in zip(errs[1:], errs[2:])):
            # the error has vanished (at the round-off floor for the finest M) and never grew: the two coarse, still
            # pre-asymptotic M left above the floor do not measure the order
            return True, None
        lm, le = np.log([u_[0] for u_ in use]), np.log([u_[1] for u_ in use])
        slope = min(float(np.polyfit(lm, le, 1)[0]), float((le[-1] - le[-2]) / (lm[-1] - lm[-2])))
        return slope <= -(order - (0.6 if len(use) >= 3 else 1.0)), -slope

    res["evals"] += 1
    ok, obs_order = converges(errs_e)
    res["sample"] = {"method": tag, "signal_order": d, "N": N, "errors_vs_exact_flow": C.short(errs_e),
                     "errors_vs_frozen_signal_flow": C.short(errs_f), "observed_order": obs_order}
    if ok:
        res["counters"]["orders_measured" if obs_order is not None else "at_floor"] += 1
    else:
        okf, _ = converges(errs_f)
        if okf and cls in ("SS", "MS") and abs(xe - xf) > 100 * floor:
            res["violations"].append({
                "kind": "signals-frozen", "mech": "C03|error-does-not-vanish-with-bspline-signal-under-shooting",
                "detail": "%s, B-spline parameter of order %d in the right-hand side: |x(tf) - exact| for M=%s is %s; the "
                          "transcription converges to the flow with the signal held at its value at the start of every "
                          "control interval instead (errors %s)" % (tag, d, MS_LIST, C.short(errs_e), C.short(errs_f))})
        else:
            res["violations"].append({
                "kind": "order", "mech": "C03|order-too-low|signals|%s" % tag,
                "detail": "B-spline parameter of order %d in the right-hand side: |x(tf) - exact| for M=%s is %s (classical "
                          "order %d); against the frozen-signal flow %s" % (d, MS_LIST, C.short(errs_e), order, C.short(errs_f))})
    res["nontrivial"] = True
    return res


def run_case(case):
    if case.get("kind") == "signals":
        return run_signals(case)
    import casadi as ca
    spec = case["spec"]
    m = spec["method"]
    cls = m["cls"]
    sub = case["sub"]
    if cls == "DC":
        d = m["degree"]
        order = 2 * d - 1 if sub == "radau" else 2 * d
        tag = "DC-%s%d" % (sub[0], d)
    else:
        # casadi's fixed-step 'collocation' integrator has no tolerance: treated as a convergent scheme of order >= 3
        order = {"rk": 4, "expl_euler": 1, "collocation": 3}.get(sub)
        tag = "SS-" + sub
    sig = "%s|%s|N%d|z%d" % (tag, C.grid_tag(m["grid"]), m["N"], len(spec.get("algebraics", [])))
    res = {"sig": sig, "evals": 0, "violations": [], "counters": {"transcriptions": 0, "orders_measured": 0, "at_floor": 0}}
    rng = np.random.default_rng(case["seed"])
    integrand = spec["objective"][0][1]
    try:
        xe, qe = exact_flow(spec, case["x0"], case["U"], integrand)
    except Exception as e:  # noqa
        res["status"] = "discarded"
        res["note"] = "reference flow failed: %r" % e
        return res
    if xe is None or not C.finite([qe], *[v for v in xe.values()]):
        res["status"] = "discarded"
        res["note"] = "reference flow failed"
        return res
    scale = 1 + max([float(np.max(np.abs(v))) for v in xe.values()] + [abs(qe)])
    errs_x, errs_q = [], []
    Ms = MS_LIST if order is not None else [1, 4]
    last_obs = None
    for M in Ms:
        try:
            out = implied(spec, M, case["x0"], case["U"], rng)
        except C.RockitRaised as e:
            res["violations"].append(C.exc_violation(ID, e, tag))
            return res
        except RuntimeError as e:
            # a SUNDIALS integrator giving up while the transcribed problem is *evaluated* at this input
            # (IDA_TOO_MUCH_WORK, CV_CONV_FAILURE ...) is a numerical limit of that integrator, not a transcription
            if sub in ("cvodes", "idas") and ("Interface" in str(e) or "IDA" in str(e) or "CV" in str(e)):
                res["status"] = "discarded"
                res["note"] = "CasADi %s gave up at this input: %s" % (sub, str(e).strip().split("\n")[-1][:160])
                return res
            raise
        if out is None:
            res["status"] = "discarded"
            res["note"] = "no feasible point for M=%d" % M
            return res
        xend, q, last_obs = out
        res["counters"]["transcriptions"] += 1
        ex = max(float(np.max(np.abs(xend[n] - xe[n]))) for n in xe)
        errs_x.append(ex)
        errs_q.append(abs(q - qe))
    floor = 2e-9 * scale      # reference flow (rtol 1e-12), Newton residuals and round-off: nothing can be measured below
    res["sample"] = {"method": tag, "grid": m["grid"], "N": m["N"], "M": Ms, "state_errors": C.short(errs_x),
                     "integral_errors": C.short(errs_q), "classical_order": order}
    if order is None:
        # CasADi integrators: within the requested tolerance
        tol = 1e3 * 1e-10 if sub in ("cvodes", "idas") else 1e-6
        res["evals"] += 2
        for nm, errs in (("state", errs_x), ("integral", errs_q)):
            if max(errs) > tol * scale * (100 if sub == "collocation" and nm else 1):
                if sub == "collocation" and errs[-1] < errs[0] and errs[-1] < 1e-6 * scale:
                    continue
                res["violations"].append({"kind": "integrator-accuracy", "mech": "C03|builtin-integrator-off|%s|%s" % (sub, nm),
                                          "detail": "%s error for M=%s: %s (tolerance %g)" % (nm, Ms, C.short(errs), tol * scale)})
        res["nontrivial"] = True
        return res
    for nm, errs in (("state", errs_x), ("integral", errs_q)):
        use = [(M, e) for M, e in zip(Ms, errs) if e > floor and M >= 2]
        res["evals"] += 1
        if len(use) >= 2:
            lm = np.log([u[0] for u in use])
            le = np.log([u[1] for u in use])
            slope = float(np.polyfit(lm, le, 1)[0])
            # the finest usable pair is the most asymptotic one: accept whichever estimate shows the higher order
            slope = min(slope, float((le[-1] - le[-2]) / (lm[-1] - lm[-2])))
            res["counters"]["orders_measured"] += 1
            res["sample"]["slope_" + nm] = round(slope, 3)
            margin = 0.6 if len(use) >= 3 else 1.0       # two points only: allow for pre-asymptotic behaviour
            # points within a factor ten of the floor carry the noise of the reference and of round-off: when at most two
            # coarse M are solidly above it and the error has vanished for the finest M without ever growing, the order is
            # not measurable on this case -- the statement's "vanishes as M grows" is what was observed
            solid = [u for u in use if u[1] > 10 * floor]
            vanished = errs[-1] <= floor and all(b_ <= 1.5 * a_ for a_, b_ in zip(errs[1:], errs[2:]))
            if slope > -(order - margin) and len(solid) <= 2 and vanished:
                res["counters"]["vanished_before_order_measurable"] = res["counters"].get("vanished_before_order_measurable", 0) + 1
            elif slope > -(order - margin):
                res["violations"].append({
                    "kind": "order", "mech": "C03|order-too-low|%s|%s" % (tag.split("-")[0] + "-" + sub, nm),
                    "detail": "%s error over M=%s: %s -> observed order %.2f, classical order %d" % (
                        nm, [u[0] for u in use], C.short([u[1] for u in use]), -slope, order)})
        else:
            res["counters"]["at_floor"] += 1
            # all (but at most one) refined errors at the round-off floor: the error has vanished
            if errs[-1] > max(floor, 1e-9 * scale):
                res["violations"].append({"kind": "no-convergence", "mech": "C03|error-does-not-vanish|%s|%s" % (tag, nm),
                                          "detail": "%s errors %s for M=%s" % (nm, C.short(errs), Ms)})
    # sys_simulator / discrete_system describe the same flow (explicit ODEs only)
    if not spec.get("algebraics") and last_obs is not None and not res["violations"]:
        try:
            ocp = last_obs.b.ocp
            if any(p.get("grid") and p.get("include_last") for p in spec["params"]):
                raise StopIteration()     # sys_simulator does not know include_last parameters (loud error)
            sim = ocp.sys_simulator(intg="rk")
            Fd = ocp.discrete_system()
            N = m["N"]
            from ..ref import grids as G
            tc = spec["t0"]["val"] + spec["T"]["val"] * np.array(G.normalized(m["grid"], N))
            x = np.concatenate([np.array(case["x0"][s["name"]], dtype=float).reshape(-1) for s in spec["states"]])
            u = np.concatenate([np.array(case["U"][s["name"]], dtype=float)[:, 0] for s in spec["controls"]]) if spec["controls"] else np.zeros(0)
            # parameters in the order rockit uses: '' then 'control' (+ 'control+')
            pg = [p for p in spec["params"] if not p.get("grid")]
            pc = [p for p in spec["params"] if p.get("grid") and not p.get("include_last")]
            pcp = [p for p in spec["params"] if p.get("grid") and p.get("include_last")]
            pv_all = np.concatenate([np.array(p["value"], dtype=float).reshape(p["shape"][0], -1)[:, 0] for p in pg + pc + pcp]) \
                if (pg + pc + pcp) else np.zeros(0)
            xd = np.array(Fd(x0=x, u=u, T=tc[1] - tc[0], t0=tc[0], p=pv_all, z0=np.zeros(0))["xf"]).reshape(-1)
            # sys_simulator only takes the parameters the right-hand side depends on
            dep = ocp.is_parameter_appearing_in_sys()
            plist = pg + pc
            psim = np.concatenate([np.array(p["value"], dtype=float).reshape(p["shape"][0], -1)[:, 0]
                                   for p, dd in zip(plist, dep) if dd]) if any(dep) else np.zeros(0)
            if not pcp:
                xs = np.array(sim(x=x, u=u, p=psim, t0=tc[0], dt=tc[1] - tc[0], z_initial_guess=np.zeros(0))["xf"]).reshape(-1)
                res["evals"] += 1
                if np.max(np.abs(xs - xd)) > 1e-5 * scale + 10 * (errs_x[-1] + floor):
                    res["violations"].append({"kind": "simulator", "mech": "C03|sys_simulator-vs-discrete_system",
                                              "detail": "one control interval: sys_simulator %s, discrete_system (M=%d) %s" % (
                                                  C.short(xs), Ms[-1], C.short(xd))})
        except StopIteration:
            pass
        except Exception as e:  # noqa
            res["violations"].append(C.exc_violation(ID, C.RockitRaised("sys_simulator/discrete_system", e), tag))
    res["nontrivial"] = True
    return res
