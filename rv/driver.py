"""Driver: schedules cases on worker subprocesses, decides verdicts, writes evidence.

    ./check <Cxx> <quick|thorough>
    ./check --replay <path>
    ./check --setup

Exit codes: 0 = held on everything explored (known findings are printed, not failed),
            1 = at least one violation that is not a listed open finding (VIOLATION line printed),
            2 = inconclusive (monitor not reached / too many inconclusive cases / harness error).
"""
import importlib
import json
import os
import random
import subprocess
import sys
import time

from . import bootstrap

NPROC = int(os.environ.get("RV_NPROC", str(min(16, os.cpu_count() or 4))))
KNOWN = os.path.join(bootstrap.VERIF_DIR, "known_findings.json")
EVID = os.path.join(bootstrap.VERIF_DIR, "evidence")
REPLAY = os.path.join(bootstrap.VERIF_DIR, "replay")


def load_prop(pid):
    return importlib.import_module("rv.props.%s" % pid.lower())


def load_known(pid):
    if not os.path.exists(KNOWN):
        return {}
    data = json.load(open(KNOWN))
    out = {}
    for e in data.get("findings", []):
        if e.get("property") == pid and e.get("status") == "open":
            out[e["signature"]] = e
    return out


def _spawn(pid, cases, scratch, tag, limit):
    infile = os.path.join(scratch, "cases_%s.json" % tag)
    outfile = os.path.join(scratch, "out_%s.jsonl" % tag)
    workdir = os.path.join(scratch, "w_%s" % tag)
    json.dump(cases, open(infile, "w"))
    env = dict(os.environ)
    env["PYTHONHASHSEED"] = "0"
    env["PYTHONPATH"] = bootstrap.VERIF_DIR
    env["RV_CASE_LIMIT"] = str(limit)
    env["OMP_NUM_THREADS"] = "1"
    env["OPENBLAS_NUM_THREADS"] = "1"
    env["MPLBACKEND"] = "Agg"
    p = subprocess.Popen([bootstrap.PYTHON, "-m", "rv.worker", pid, infile, outfile, workdir],
                         cwd=bootstrap.VERIF_DIR, env=env, stdout=subprocess.DEVNULL, stderr=subprocess.DEVNULL)
    return {"proc": p, "cases": cases, "out": outfile, "tag": tag, "start": time.time(),
            "deadline": time.time() + 60 + limit * max(1, len(cases)), "workdir": workdir}


def _read_results(path):
    res = []
    if os.path.exists(path):
        for line in open(path):
            line = line.strip()
            if line:
                try:
                    res.append(json.loads(line))
                except Exception:
                    pass
    return res


def run_cases(pid, cases, limit, total_deadline):
    """Run all cases; returns dict idx -> result."""
    scratch = bootstrap.make_scratch("rv_%s" % pid)
    results = {}
    try:
        nw = max(1, min(NPROC, len(cases)))
        buckets = [[] for _ in range(nw)]
        for i, c in enumerate(cases):
            buckets[i % nw].append(c)
        jobs = [_spawn(pid, b, scratch, "b%d" % i, limit) for i, b in enumerate(buckets) if b]
        retry = []
        while jobs:
            time.sleep(0.2)
            for j in list(jobs):
                rc = j["proc"].poll()
                now = time.time()
                if rc is None and now < j["deadline"] and now < total_deadline:
                    continue
                if rc is None:
                    j["proc"].kill()
                    j["proc"].wait()
                jobs.remove(j)
                got = _read_results(j["out"])
                for r in got:
                    results[r["idx"]] = r
                missing = [c for c in j["cases"] if c["idx"] not in results]
                if missing:
                    # the first missing case is the one that killed/stalled the worker
                    first = missing[0]
                    if j.get("single"):
                        tail = ""
                        try:
                            tail = open(os.path.join(j["workdir"], "worker.log")).read()[-1500:]
                        except Exception:
                            pass
                        results[first["idx"]] = {"idx": first["idx"], "status": "inconclusive", "evals": 0,
                                                 "violations": [], "counters": {}, "reached": [],
                                                 "note": "worker died or timed out (rc=%s): %s" % (rc, tail)}
                        rest = missing[1:]
                    else:
                        retry.append([first])
                        rest = missing[1:]
                    if rest and time.time() < total_deadline:
                        retry.append(rest)
                    elif rest:
                        for c in rest:
                            results[c["idx"]] = {"idx": c["idx"], "status": "inconclusive", "evals": 0,
                                                 "violations": [], "counters": {}, "reached": [],
                                                 "note": "check deadline reached before this case ran"}
            while retry and len(jobs) < NPROC:
                b = retry.pop(0)
                j = _spawn(pid, b, scratch, "r%d_%d" % (b[0]["idx"], int(time.time() * 1000) % 100000), limit)
                j["single"] = len(b) == 1
                jobs.append(j)
    finally:
        bootstrap.rm_scratch(scratch)
    return results


def decide(pid, mod, tier, seed, cases, results, wall):
    known = load_known(pid)
    classify = getattr(mod, "classify", None)
    n_by = {"held": 0, "violated": 0, "inconclusive": 0, "discarded": 0}
    evals = 0
    sigs = set()
    counters = {}
    reached = set()
    samples = []
    new_viol = []
    known_hits = {}
    harness_errors = []
    for c in cases:
        r = results.get(c["idx"])
        if r is None:
            r = {"status": "inconclusive", "evals": 0, "violations": [], "counters": {}, "reached": [],
                 "note": "no result"}
        st = r.get("status", "held")
        if r.get("violations"):
            st = "violated"
        n_by[st] = n_by.get(st, 0) + 1
        evals += int(r.get("evals", 0))
        if r.get("nontrivial", r.get("evals", 0) > 0) and st in ("held", "violated"):
            sigs.add(r.get("sig") or json.dumps(c.get("sig", c["idx"])))
        for k, v in r.get("counters", {}).items():
            if isinstance(v, (int, float)):
                counters[k] = counters.get(k, 0) + v
        reached.update(r.get("reached", []))
        if r.get("harness_error"):
            harness_errors.append((c["idx"], r.get("note", "")))
        if r.get("sample") is not None and len(samples) < 4:
            samples.append(r["sample"])
        for v in r.get("violations", []):
            sig = classify(c, v) if classify else v.get("mech")
            sig = sig or v.get("mech") or v.get("kind", "violation")
            if sig in known:
                known_hits.setdefault(sig, []).append(c["idx"])
            else:
                new_viol.append((c, v, sig))
    # ---- output lines
    for sig, idxs in sorted(known_hits.items()):
        print("KNOWN-FINDING: property=%s %s (seen in %d case(s)) -- %s" % (
            pid, sig, len(idxs), known[sig].get("what", "")))
    rc = 0
    replay_paths = []
    if new_viol:
        os.makedirs(REPLAY, exist_ok=True)
        seen = {}
        for c, v, sig in new_viol:
            seen[sig] = seen.get(sig, 0) + 1
            if seen[sig] > 2 or len(replay_paths) >= 10:
                continue
            path = os.path.join(REPLAY, "%s_%s_s%d_i%d.json" % (pid, tier, seed, c["idx"]))
            json.dump({"property": pid, "case": c, "violation": v, "signature": sig}, open(path, "w"), indent=1,
                      default=str)
            if path not in replay_paths:
                replay_paths.append(path)
                print("VIOLATION property=%s replay=%s" % (pid, path))
                print("   signature: %s" % sig)
                print("   detail: %s" % str(v.get("detail", ""))[:600])
        rc = 1
    # ---- inconclusive handling
    total = max(1, len(cases))
    anchors = getattr(mod, "ANCHORS", [])
    missing_anchor = [a for a in anchors if not any(a in r for r in reached)]
    incon_reason = None
    if harness_errors:
        incon_reason = "harness error in %d case(s), first: idx=%s %s" % (
            len(harness_errors), harness_errors[0][0], harness_errors[0][1][-800:])
    elif evals == 0:
        incon_reason = "no oracle evaluation was performed"
    elif n_by["inconclusive"] > 0.05 * total:
        incon_reason = "%d of %d cases inconclusive" % (n_by["inconclusive"], total)
    elif n_by["discarded"] > 0.15 * total:
        incon_reason = "%d of %d cases discarded (degenerate / badly conditioned inputs)" % (n_by["discarded"], total)
    elif missing_anchor:
        incon_reason = "anchored mechanism never entered: %s" % ",".join(missing_anchor)
    elif len(sigs) < 2:
        incon_reason = "fewer than 2 distinct non-trivial cases"
    if rc == 0 and incon_reason:
        print("INCONCLUSIVE property=%s reason=%s" % (pid, incon_reason))
        rc = 2
    # first notes of inconclusive cases, for debugging
    if n_by["inconclusive"]:
        shown = 0
        for c in cases:
            r = results.get(c["idx"], {})
            if r.get("status") == "inconclusive" and shown < 3:
                print("  inconclusive idx=%s: %s" % (c["idx"], str(r.get("note", ""))[-400:].replace("\n", " | ")))
                shown += 1
    # ---- evidence
    os.makedirs(EVID, exist_ok=True)
    if not samples:
        samples = [{"case": cases[0]}] if cases else []
    ev = {
        "property_id": pid,
        "tier": tier,
        "seed": seed,
        "level": getattr(mod, "LEVEL", "exploration"),
        "coverage": {
            "evaluations": int(evals),
            "distinct_nontrivial": len(sigs),
            "rule": getattr(mod, "RULE", ""),
            "samples": samples,
            "cases": len(cases),
            "cases_by_status": n_by,
            "monitor_counters": counters,
            "reached_rockit_functions": len(reached),
            "anchors_required": anchors,
            "anchors_missing": missing_anchor,
            "known_findings_reported": {k: len(v) for k, v in known_hits.items()},
            "new_violation_signatures": sorted(set(s for _, _, s in new_viol)),
            "verdict": {0: "held", 1: "violated", 2: "inconclusive"}[rc],
        },
        "assumptions": getattr(mod, "ASSUMPTIONS", []),
        "wall_s": round(wall, 2),
        "violations": len(new_viol),
    }
    if getattr(mod, "EXHAUSTIVE", False):
        ev["coverage"]["exhaustive"] = True
    json.dump(ev, open(os.path.join(EVID, "%s.json" % pid), "w"), indent=1, default=str)
    print("%s %s seed=%d: cases=%d held=%d violated=%d inconclusive=%d discarded=%d evaluations=%d distinct=%d "
          "known=%d wall=%.1fs -> %s" % (pid, tier, seed, len(cases), n_by["held"], n_by["violated"],
                                         n_by["inconclusive"], n_by["discarded"], evals, len(sigs),
                                         len(known_hits), wall, ev["coverage"]["verdict"]))
    return rc


def run_check(pid, tier):
    t0 = time.time()
    bootstrap.ensure_deps()
    mod = load_prop(pid)
    seed = bootstrap.base_seed()
    rng = random.Random(bootstrap.seed_for(pid, tier, seed))
    cases = mod.gen_cases(rng, tier)
    for i, c in enumerate(cases):
        c["idx"] = i
        c.setdefault("tier", tier)
    limit = getattr(mod, "CASE_LIMIT", {}).get(tier, 120 if tier == "quick" else 300)
    budget = getattr(mod, "WALL_LIMIT", {}).get(tier, 1500 if tier == "quick" else 6 * 3600)
    results = run_cases(pid, cases, limit, time.time() + budget)
    return decide(pid, mod, tier, seed, cases, results, time.time() - t0)


def replay(path):
    bootstrap.ensure_deps()
    data = json.load(open(path))
    pid = data["property"]
    scratch = bootstrap.make_scratch("rv_replay")
    cwd = os.getcwd()
    try:
        os.chdir(scratch)
        bootstrap.import_rockit()
        mod = load_prop(pid)
        if hasattr(mod, "worker_init"):
            mod.worker_init()
        with bootstrap.quiet(os.path.join(scratch, "log")):
            res = mod.run_case(data["case"])
    finally:
        os.chdir(cwd)
        bootstrap.rm_scratch(scratch)
    print(json.dumps(res, indent=1, default=str)[:20000])
    classify = getattr(mod, "classify", None)
    known = load_known(pid)
    rc = 0
    for v in res.get("violations", []):
        sig = (classify(data["case"], v) if classify else None) or v.get("mech")
        if sig in known:
            print("KNOWN-FINDING: property=%s %s" % (pid, sig))
        else:
            print("VIOLATION property=%s replay=%s" % (pid, path))
            rc = 1
    return rc


def main(argv):
    if not argv:
        print(__doc__)
        return 2
    if argv[0] == "--setup":
        bootstrap.ensure_deps(verbose=True)
        return 0
    if argv[0] == "--replay":
        return replay(argv[1])
    pid = argv[0].upper()
    tier = argv[1] if len(argv) > 1 else os.environ.get("VERIF_TIER", "quick")
    return run_check(pid, tier)


if __name__ == "__main__":
    sys.exit(main(sys.argv[1:]))
