"""rv -- runtime-verification harness for meco-group/rockit (see /verif/DESIGN.md)."""
