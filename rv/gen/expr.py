"""Expression trees with two evaluators (CasADi for declaring, numpy for the reference model).

A node is a JSON-able list:
   ["c", 1.5]                      constant
   ["inf", -1]                     signed infinity (bounds only)
   ["s", name, i, j]               element (i, j) of the declared symbol `name`
   ["t"] ["T"] ["t0"] ["DT"] ["DTc"]   time, horizon, start, integrator step, control-interval length
   ["+", a, b] ["-", a, b] ["*", a, b] ["neg", a] ["sin", a] ["cos", a] ["tanh", a] ["sq", a] ["rat", a]
   ["at_t0", e] ["at_tf", e] ["integral", e] ["sum", e] ["sum+", e] ["intc", e]   placeholders
   ["off", e, k]                   ocp.offset(e, k)   (next = +1, prev = -1)
   ["der", e]                      ocp.der(e)   (CasADi side only; the reference differentiates numerically)

All nodes are scalar valued.  Matrix/vector expressions are lists (of lists) of scalar nodes, see `Mat`.
"""
import math

UNARY = ("neg", "sin", "cos", "tanh", "sq", "rat")
BINARY = ("+", "-", "*")
PLACEHOLDERS = ("at_t0", "at_tf", "integral", "sum", "sum+", "intc")


def const(v):
    return ["c", float(v)]


def sym(name, i=0, j=0):
    return ["s", name, int(i), int(j)]


def walk(node):
    yield node
    op = node[0]
    if op in UNARY or op in PLACEHOLDERS or op in ("off", "der"):
        yield from walk(node[1])
    elif op in BINARY:
        yield from walk(node[1])
        yield from walk(node[2])


def symbols_of(node):
    return sorted({n[1] for n in walk(node) if n[0] == "s"})


def uses(node, *ops):
    return any(n[0] in ops for n in walk(node))


def is_signal(node, signal_names):
    """Mirror of 'depends on time': any signal symbol / t / DT / DTc outside placeholders."""
    op = node[0]
    if op in PLACEHOLDERS:
        return False
    if op == "s":
        return node[1] in signal_names
    if op in ("t", "DT", "DTc"):
        return True
    if op in UNARY or op in ("off", "der"):
        return is_signal(node[1], signal_names)
    if op in BINARY:
        return is_signal(node[1], signal_names) or is_signal(node[2], signal_names)
    return False


# ---------------------------------------------------------------------------------------------
# numpy side
# ---------------------------------------------------------------------------------------------

def ev(node, env):
    """Evaluate with floats.  `env` provides:
         env.sym(name, i, j), env.t, env.T, env.t0, env.DT, env.DTc,
         env.placeholder(kind, expr)  and env.offset(expr, k)
    """
    op = node[0]
    if op == "c":
        return node[1]
    if op == "inf":
        return float("inf") * node[1]
    if op == "s":
        return env.sym(node[1], node[2], node[3])
    if op == "+":
        return ev(node[1], env) + ev(node[2], env)
    if op == "-":
        return ev(node[1], env) - ev(node[2], env)
    if op == "*":
        return ev(node[1], env) * ev(node[2], env)
    if op == "neg":
        return -ev(node[1], env)
    if op == "sin":
        a = ev(node[1], env)
        return math.sin(a) if math.isfinite(a) else float("nan")
    if op == "cos":
        a = ev(node[1], env)
        return math.cos(a) if math.isfinite(a) else float("nan")
    if op == "tanh":
        return math.tanh(ev(node[1], env))
    if op == "sq":
        a = ev(node[1], env)
        return a * a
    if op == "rat":
        a = ev(node[1], env)
        return a / (1.0 + a * a)
    if op == "t":
        return env.t
    if op == "T":
        return env.T
    if op == "t0":
        return env.t0
    if op == "DT":
        return env.DT
    if op == "DTc":
        return env.DTc
    if op in PLACEHOLDERS:
        return env.placeholder(op, node[1])
    if op == "off":
        return env.offset(node[1], node[2])
    raise ValueError("numpy evaluator: unknown node %r" % (op,))


# ---------------------------------------------------------------------------------------------
# CasADi side
# ---------------------------------------------------------------------------------------------

def to_ca(node, ctx):
    """Build a CasADi MX.  `ctx` provides: ctx.syms[name] (MX), ctx.stage (rockit Stage)."""
    import casadi as ca
    op = node[0]
    st = ctx.stage
    if op == "c":
        return ca.MX(node[1])
    if op == "inf":
        return ca.MX(float("inf") * node[1])
    if op == "s":
        s = ctx.syms[node[1]]
        if s.shape == (1, 1):
            return s
        return s[node[2], node[3]]
    if op == "+":
        return to_ca(node[1], ctx) + to_ca(node[2], ctx)
    if op == "-":
        return to_ca(node[1], ctx) - to_ca(node[2], ctx)
    if op == "*":
        return to_ca(node[1], ctx) * to_ca(node[2], ctx)
    if op == "neg":
        return -to_ca(node[1], ctx)
    if op == "sin":
        return ca.sin(to_ca(node[1], ctx))
    if op == "cos":
        return ca.cos(to_ca(node[1], ctx))
    if op == "tanh":
        return ca.tanh(to_ca(node[1], ctx))
    if op == "sq":
        a = to_ca(node[1], ctx)
        return a ** 2
    if op == "rat":
        a = to_ca(node[1], ctx)
        return a / (1 + a * a)
    if op == "t":
        return st.t
    if op == "T":
        return st.T
    if op == "t0":
        return st.t0
    if op == "DT":
        return st.DT
    if op == "DTc":
        return st.DT_control
    if op == "at_t0":
        return st.at_t0(to_ca(node[1], ctx))
    if op == "at_tf":
        return st.at_tf(to_ca(node[1], ctx))
    if op == "integral":
        return st.integral(to_ca(node[1], ctx))
    if op == "intc":
        return st.integral(to_ca(node[1], ctx), grid="control")
    if op == "sum":
        return st.sum(to_ca(node[1], ctx))
    if op == "sum+":
        return st.sum(to_ca(node[1], ctx), include_last=True)
    if op == "off":
        k = node[2]
        e = to_ca(node[1], ctx)
        if k == 1 and ctx.use_next_prev:
            return st.next(e)
        if k == -1 and ctx.use_next_prev:
            return st.prev(e)
        return st.offset(e, k)
    if op == "der":
        return st.der(to_ca(node[1], ctx))
    raise ValueError("casadi builder: unknown node %r" % (op,))


class Ctx:
    def __init__(self, stage, syms, use_next_prev=True):
        self.stage = stage
        self.syms = syms
        self.use_next_prev = use_next_prev


def mat_to_ca(mat, ctx):
    """mat: list of rows, each a list of scalar nodes -> MX of that shape."""
    import casadi as ca
    rows = [ca.horzcat(*[to_ca(e, ctx) for e in row]) for row in mat]
    return ca.vertcat(*rows)


# ---------------------------------------------------------------------------------------------
# random generation
# ---------------------------------------------------------------------------------------------

def rand_const(rng, lo=-1.5, hi=1.5):
    v = rng.uniform(lo, hi)
    if abs(v) < 0.15:
        v = 0.15 if v >= 0 else -0.15
    return ["c", round(v, 4)]


def rand_expr(rng, leaves, depth=2, allow_mul=True):
    """Smooth, bounded-growth random scalar expression over the given leaf nodes."""
    if depth <= 0 or (depth < 2 and rng.random() < 0.3):
        if leaves and rng.random() < 0.85:
            leaf = rng.choice(leaves)
            if rng.random() < 0.4:
                return ["*", rand_const(rng), leaf]
            return leaf
        return rand_const(rng)
    r = rng.random()
    if r < 0.35:
        return ["+", rand_expr(rng, leaves, depth - 1, allow_mul), rand_expr(rng, leaves, depth - 1, allow_mul)]
    if r < 0.5:
        a, b = rand_expr(rng, leaves, depth - 1, allow_mul), rand_expr(rng, leaves, depth - 1, allow_mul)
        if a == b:          # x - x would cancel symbolically and silently remove the dependence
            b = ["sq", b]
        return ["-", a, b]
    if r < 0.65 and allow_mul:
        return ["*", rand_expr(rng, leaves, depth - 1, allow_mul), rand_expr(rng, leaves, depth - 1, allow_mul)]
    op = rng.choice(["sin", "cos", "tanh", "sq", "rat", "neg"])
    return [op, rand_expr(rng, leaves, depth - 1, allow_mul)]


def rand_expr_covering(rng, must, others, depth=2):
    """Expression that certainly involves every leaf in `must` (sum of sub-expressions)."""
    terms = []
    for m in must:
        inner = rand_expr(rng, [m] + others, depth - 1) if rng.random() < 0.6 else m
        terms.append(["*", rand_const(rng), ["+", m, rng.choice([["sin", inner], ["rat", inner], ["sq", m], inner])]])
    if not terms:
        return rand_expr(rng, others, depth)
    e = terms[0]
    for t in terms[1:]:
        e = ["+", e, t]
    if others and rng.random() < 0.7:
        e = ["+", e, rand_expr(rng, others, depth)]
    return e


def self_check(n=200, seed=1):
    """Evaluate random trees both ways; returns max abs difference."""
    import random
    import casadi as ca
    rng = random.Random(seed)
    x = ca.MX.sym("x", 2, 2)
    y = ca.MX.sym("y")

    class St:
        t = ca.MX.sym("t")
        T = ca.MX.sym("T")
        t0 = ca.MX.sym("t0")
        DT = ca.MX.sym("DT")
        DT_control = ca.MX.sym("DTc")

    ctx = Ctx(St, {"x": x, "y": y})
    leaves = [sym("x", 0, 0), sym("x", 1, 0), sym("x", 0, 1), sym("x", 1, 1), sym("y"), ["t"], ["T"], ["t0"], ["DT"],
              ["DTc"]]
    worst = 0.0
    for _ in range(n):
        e = rand_expr(rng, leaves, depth=rng.choice([1, 2, 3, 4]))
        f = ca.Function("f", [x, y, St.t, St.T, St.t0, St.DT, St.DT_control], [to_ca(e, ctx)])
        xv = [[rng.uniform(-2, 2) for _ in range(2)] for _ in range(2)]
        vals = [rng.uniform(-2, 2) for _ in range(6)]

        class Env:
            t, T, t0, DT, DTc = vals[1:]

            @staticmethod
            def sym(name, i, j):
                return xv[i][j] if name == "x" else vals[0]

        a = float(f(ca.DM(xv), *vals))
        b = ev(e, Env)
        worst = max(worst, abs(a - b) / (1 + abs(a)))
    return worst
