"""Random stage specifications (plain data).  Hostile rather than typical: edge sizes, non-uniform grids,
per-interval quantities, matrix symbols, non-zero t0, free / parametric horizons."""
from . import expr as E


def rnd(rng, lo, hi, nd=4):
    return round(rng.uniform(lo, hi), nd)


def pick_shape(rng, allow_matrix, pvec=0.4):
    r = rng.random()
    if allow_matrix and r < 0.12:
        return [2, 2]
    if allow_matrix and r < 0.17:
        return [1, 2]
    if r < pvec:
        return [rng.choice([2, 3]), 1]
    return [1, 1]


def elems(name, shape):
    return [E.sym(name, i, j) for j in range(shape[1]) for i in range(shape[0])]


def rand_mat(rng, shape, must, others, depth=2):
    """n-by-m matrix of scalar expressions; jointly they involve every leaf in `must`."""
    cells = [(i, j) for i in range(shape[0]) for j in range(shape[1])]
    assign = {c: [] for c in cells}
    for m in must:
        assign[rng.choice(cells)].append(m)
    rows = []
    for i in range(shape[0]):
        row = []
        for j in range(shape[1]):
            row.append(E.rand_expr_covering(rng, assign[(i, j)], others + must, depth))
        rows.append(row)
    return rows


def gen_grid(rng, kinds, N, allow_minmax=False):
    kind = rng.choice(kinds)
    g = {"cls": "Uniform"}
    if kind == "uniform":
        g = {"cls": "Uniform"}
    elif kind == "uniform_loc":
        g = {"cls": "Uniform", "localize_t0": rng.random() < 0.6, "localize_T": rng.random() < 0.6}
        if not g["localize_t0"] and not g["localize_T"]:
            g["localize_t0"] = True
    elif kind == "geometric":
        g = {"cls": "Geometric", "growth": rnd(rng, 1.0, 6.0, 3) if rng.random() < 0.85 else 1.0,
             "local": rng.random() < 0.5}
    elif kind == "geometric_loc":
        g = {"cls": "Geometric", "growth": rnd(rng, 1.1, 4.0, 3), "local": rng.random() < 0.5,
             "localize_t0": rng.random() < 0.6, "localize_T": rng.random() < 0.6}
        if not g["localize_t0"] and not g["localize_T"]:
            g["localize_T"] = True
    elif kind == "free":
        g = {"cls": "Free", "localize_t0": rng.random() < 0.4}
    elif kind == "function":
        g = {"cls": "Function", "fun": rng.choice(["sq", "sqrt", "cheb"])}
    elif kind == "density":
        g = {"cls": "Density", "density": {"kind": rng.choice(["lin", "quad", "bump"]), "a": rnd(rng, 0.3, 4.0, 2)}}
    elif kind == "dense_edges":
        g = {"cls": "DenseEdges", "multiplier": rng.choice([3, 10]), "edge_frac": rng.choice([0.1, 0.2])}
    if allow_minmax and rng.random() < 0.5 and g["cls"] in ("Uniform", "Geometric", "Free"):
        # min / max are documented for UniformGrid, GeometricGrid and FreeGrid only
        if rng.random() < 0.7:
            g["min"] = rnd(rng, 0.01, 0.2, 3)
        if rng.random() < 0.7:
            g["max"] = rnd(rng, 1.0, 5.0, 3)
    return g


def rand_constraint_scale(rng, c):
    """scalar scale, or (vector-valued constraints) one scale per element"""
    n = len(c["lhs"])
    if n >= 2 and rng.random() < 0.4:
        return [rnd(rng, 0.2, 8.0, 3) for _ in range(n)]
    return rnd(rng, 0.2, 8.0, 3)


def gen_horizon(rng, kinds, params, variables, which):
    kind = rng.choice(kinds)
    if which == "t0":
        val = rnd(rng, -2.0, 2.0, 3) if rng.random() < 0.8 else 0.0
    else:
        val = rnd(rng, 0.3, 3.0, 3)
    if kind == "num":
        return {"kind": "num", "val": val}
    if kind == "free":
        return {"kind": "free", "guess": val}
    if kind == "param":
        name = "p_" + which
        params.append({"name": name, "shape": [1, 1], "grid": "", "value": [[val]], "role": "horizon"})
        return {"kind": "param", "name": name, "val": val}
    if kind == "var":
        name = "v_" + which
        variables.append({"name": name, "shape": [1, 1], "grid": "", "role": "horizon", "guess": val})
        return {"kind": "var", "name": name, "guess": val}
    raise ValueError(kind)


DEFAULT_PROFILE = {
    "methods": ["MS", "SS"],
    "intgs": ["rk", "expl_euler", "next"],
    "grids": ["uniform", "geometric", "function", "free", "uniform_loc", "geometric_loc", "density"],
    "N": [1, 2, 3, 5],
    "M": [1, 2, 3, 4],
    "t0_kinds": ["num", "num", "free", "param"],
    "T_kinds": ["num", "num", "free", "param"],
    "max_states": 3,
    "max_controls": 2,
    "allow_matrix": True,
    "per_interval": True,
    "global_pv": True,
    "alg": False,
    "time_in_rhs": 0.7,
    "n_objective": (0, 0),
    "n_constraints": (0, 0),
    "integrals": True,
    "quad_states": 0.0,
    "per_interval_matrix": True,
    "degrees": [1, 2, 3, 4, 5],
    "schemes": ["radau", "legendre"],
    "scales": False,
}


def gen_stage(rng, profile=None):
    pr = dict(DEFAULT_PROFILE)
    pr.update(profile or {})
    cls = rng.choice(pr["methods"])
    N = rng.choice(pr["N"])
    M = rng.choice(pr["M"])
    intg = None
    dyn = "ode"
    if cls in ("MS", "SS"):
        intg = rng.choice(pr["intgs"])
        if intg == "next":
            dyn = "next"
            intg = "rk"
    grid = gen_grid(rng, pr["grids"], N, pr.get("grid_minmax", False))
    method = {"cls": cls, "N": N, "M": M, "grid": grid}
    if cls in ("MS", "SS"):
        method["intg"] = intg
    if cls == "DC":
        method["degree"] = rng.choice(pr["degrees"])
        method["scheme"] = rng.choice(pr["schemes"])
    params, variables = [], []
    spec = {"method": method, "dyn": dyn}
    spec["t0"] = gen_horizon(rng, pr["t0_kinds"], params, variables, "t0")
    spec["T"] = gen_horizon(rng, pr["T_kinds"], params, variables, "T")
    if grid.get("cls") == "Free" or grid.get("localize_T") or grid.get("localize_t0"):
        pass
    # symbols
    ns = rng.randint(1, pr["max_states"])
    states = []
    for i in range(ns):
        states.append({"name": "x%d" % i, "shape": pick_shape(rng, pr["allow_matrix"])})
    nu = rng.randint(0, pr["max_controls"])
    controls = [{"name": "u%d" % i, "shape": pick_shape(rng, False, 0.3)} for i in range(nu)]
    algs = []
    if pr["alg"] and cls == "DC" and rng.random() < pr["alg"]:
        for i in range(rng.randint(1, 2)):
            algs.append({"name": "z%d" % i, "shape": [rng.choice([1, 1, 2]), 1]})
    if pr["global_pv"]:
        for i in range(rng.randint(0, 2)):
            shp = pick_shape(rng, pr["allow_matrix"], 0.3)
            params.append({"name": "p%d" % i, "shape": shp, "grid": "",
                           "value": [[rnd(rng, -1.5, 1.5) for _ in range(shp[1])] for _ in range(shp[0])]})
        for i in range(rng.choice([0, 1, 1, 2])):
            variables.append({"name": "v%d" % i, "shape": pick_shape(rng, pr["allow_matrix"], 0.3), "grid": ""})
    if pr["per_interval"]:
        for i in range(rng.randint(0, 2)):
            # per-interval symbols: mostly column vectors (as in rockit's examples), sometimes rows / matrices
            shp = rng.choice([[2, 2], [1, 2]]) if (pr["allow_matrix"] and pr["per_interval_matrix"] and rng.random() < 0.15) else pick_shape(rng, False, 0.3)
            il = rng.random() < 0.4
            ncol = shp[1] * (N + (1 if il else 0))
            params.append({"name": "pc%d" % i, "shape": shp, "grid": "control", "include_last": il,
                           "value": [[rnd(rng, -1.5, 1.5) for _ in range(ncol)] for _ in range(shp[0])]})
        for i in range(rng.choice([0, 1, 1, 2])):
            variables.append({"name": "vc%d" % i, "shape": rng.choice([[2, 2], [1, 2]]) if (pr["allow_matrix"] and pr["per_interval_matrix"] and rng.random() < 0.15)
                              else pick_shape(rng, False, 0.3), "grid": "control",
                              "include_last": rng.random() < 0.4})
    if pr["scales"]:
        for s in states + controls + algs + [v for v in variables if v.get("role") != "horizon"]:
            r = rng.random()
            n, m = s["shape"]
            if r < 0.45:
                s["scale"] = rnd(rng, 0.2, 8.0, 3)
            elif r < 0.75:
                s["scale"] = [[rnd(rng, 0.2, 8.0, 3) for _ in range(m)] for _ in range(n)]
        for s in states:
            if cls == "DC" and rng.random() < 0.5:
                s["der_scale"] = rnd(rng, 0.2, 8.0, 3)
    spec.update({"states": states, "controls": controls, "algebraics": algs, "params": params,
                 "variables": variables})
    # leaves available to the model
    lv_x = [e for s in states for e in elems(s["name"], s["shape"])]
    lv_u = [e for s in controls for e in elems(s["name"], s["shape"])]
    lv_z = [e for s in algs for e in elems(s["name"], s["shape"])]
    lv_p = [e for s in params if s.get("role") != "horizon" for e in elems(s["name"], s["shape"])]
    lv_v = [e for s in variables if s.get("role") != "horizon" for e in elems(s["name"], s["shape"])]
    time_leaf = [["t"]] if rng.random() < pr["time_in_rhs"] else []
    extra = []
    if dyn == "next":
        if rng.random() < 0.8:
            extra.append(["DT"])
        if rng.random() < 0.8:
            extra.append(["DTc"])
    must = lv_u + lv_p + lv_v + time_leaf + extra + lv_z
    rng.shuffle(must)
    # distribute `must` leaves over the states
    rhs = {}
    shares = {s["name"]: [] for s in states}
    for m_ in must:
        shares[rng.choice(states)["name"]].append(m_)
    for s in states:
        rhs[s["name"]] = rand_mat(rng, s["shape"], shares[s["name"]], lv_x, depth=2)
    spec["rhs"] = rhs
    cols = [s_ for s_ in states if s_["shape"][1] == 1]
    if len(cols) >= 2 and rng.random() < 0.2:
        # one set_der / set_next call for a concatenation of (column-valued) states
        spec["rhs_concat"] = [s_["name"] for s_ in rng.sample(cols, 2)]
    if len(states) > 1 and rng.random() < 0.4:
        # set_der / set_next need not be called in the order the states were declared
        order = [s["name"] for s in states]
        rng.shuffle(order)
        spec["rhs_order"] = order
    spec["alg"] = []
    for s in algs:
        for e in elems(s["name"], s["shape"]):
            body = E.rand_expr(rng, lv_x + lv_u + time_leaf + lv_p, depth=2)
            spec["alg"].append({"expr": ["-", ["+", e, ["*", ["c", 0.2], ["tanh", e]]], body]})
    spec["leaves"] = {"x": lv_x, "u": lv_u, "z": lv_z, "p": lv_p, "v": lv_v}
    # quadrature states declared by the user
    if pr["quad_states"] and dyn == "ode" and rng.random() < pr["quad_states"]:
        q = {"name": "q0", "shape": [1, 1], "quad": True}
        spec["states"].append(q)
        spec["rhs"]["q0"] = [[E.rand_expr(rng, lv_x + lv_u + time_leaf, depth=2)]]
    spec["objective"] = []
    spec["constraints"] = []
    spec["initial"] = []
    return spec


def signal_leaves(spec, with_time=True, with_z=True):
    lv = spec["leaves"]
    out = list(lv["x"]) + list(lv["u"])
    if with_z:
        out += list(lv["z"])
    for s in spec["params"] + spec["variables"]:
        if s.get("grid") == "control":
            out += elems(s["name"], s["shape"])
    if with_time:
        out.append(["t"])
    return out


def global_leaves(spec):
    out = []
    for s in spec["params"] + spec["variables"]:
        if not s.get("grid") and s.get("role") != "horizon":
            out += elems(s["name"], s["shape"])
    return out


def gen_objective(rng, spec, nterms, allow=None):
    """Non-signal scalar terms built from placeholders, T, t0, global parameters / variables."""
    sig = signal_leaves(spec)
    glob = global_leaves(spec) + [["T"], ["t0"]]
    dyn = spec.get("dyn")
    kinds = ["at_t0", "at_tf", "sum", "sum+", "intc"]
    if dyn == "ode" and (allow is None or "integral" in allow):
        kinds += ["integral", "integral"]
    if allow is not None:
        kinds = [k for k in kinds if k in allow]
    terms = []
    for _ in range(nterms):
        def ph():
            k = rng.choice(kinds)
            lv = sig
            if k in ("at_t0", "at_tf", "sum", "sum+", "intc"):
                pass
            body = E.rand_expr(rng, lv, depth=rng.choice([1, 2]))
            if not E.is_signal(body, {n for n in _signal_names(spec)}):
                body = ["+", body, rng.choice(sig)]
            if k == "integral":
                # integrands cannot contain DT symbols; offsets not allowed either
                pass
            return [k, body]
        r = rng.random()
        if r < 0.55:
            t = ph()
        elif r < 0.75:
            t = ["*", rng.choice(glob), ph()]
        elif r < 0.9:
            t = ["+", ["sq", ph()], ["*", E.rand_const(rng), rng.choice(glob)]]
        else:
            t = ["*", ph(), ph()]
        terms.append(t)
    return terms


def _signal_names(spec):
    out = [s["name"] for s in spec["states"] + spec["controls"] + spec["algebraics"]]
    out += [s["name"] for s in spec["params"] + spec["variables"] if s.get("grid") == "control"]
    return out


def decision_names(spec):
    out = [s["name"] for s in spec["states"] + spec["controls"] + spec["algebraics"]]
    out += [s["name"] for s in spec["variables"] if s.get("role") != "horizon"]
    return set(out)


class _ProbeEnv:
    """numeric probe: does an expression really depend on the given symbols (after cancellations)?"""

    def __init__(self, vals):
        self.vals = vals
        self.t, self.T, self.t0, self.DT, self.DTc = 0.37, 1.3, -0.2, 0.11, 0.33

    def sym(self, name, i, j):
        return self.vals.setdefault((name, i, j), 0.1 + 0.01 * (hash((name, i, j)) % 97))

    def placeholder(self, kind, e):
        return E.ev(e, self)

    def offset(self, e, k):
        return E.ev(e, self)


def really_depends(body, names, rng, tvals=(0.37,)):
    """the dependence must survive at every probed time (e.g. factors of t vanish at t0 = 0)"""
    for tv in tvals:
        base = _ProbeEnv({})
        base.t = tv
        v0 = E.ev(body, base)
        ok = False
        for trial in range(2):
            vals = dict(base.vals)
            for key in list(vals):
                if key[0] in names:
                    vals[key] = vals[key] + rng.uniform(0.3, 0.9)
            pe = _ProbeEnv(vals)
            pe.t = tv
            if abs(E.ev(body, pe) - v0) > 1e-9:
                ok = True
                break
        if not ok:
            return False
    return True


def probe_times(spec):
    tv = [0.37]
    if spec["t0"]["kind"] == "num":
        tv.append(spec["t0"]["val"])
        if spec["T"]["kind"] == "num":
            tv.append(spec["t0"]["val"] + spec["T"]["val"])
    elif spec["t0"]["kind"] == "param":
        tv.append(spec["t0"]["val"])
    return tuple(tv)


def ensure_decision(rng, spec, body, states_only=False):
    """Opti rejects constraints without decision variables: make sure a state element is involved."""
    dn = decision_names(spec)
    if states_only:
        # controls / per-interval quantities at tf repeat the last interval's value and can cancel against t0 (N=1)
        dn = {s["name"] for s in spec["states"]}
    for _ in range(4):
        if any(n[0] == "s" and n[1] in dn for n in E.walk(body)) and really_depends(body, dn, rng, probe_times(spec)):
            return body
        # (x - x, a + neg(a) ... cancel symbolically: a square of a state cannot be cancelled by accident)
        body = ["+", body, ["*", E.rand_const(rng), ["sq", rng.choice(spec["leaves"]["x"])]]]
    return body


def gen_constraint(rng, spec, cid, grids=("control",), allow_offsets=True, allow_point=True):
    sig = signal_leaves(spec)
    glob = global_leaves(spec)
    names = set(_signal_names(spec))
    r = rng.random()
    c = {"cid": cid}
    if allow_point and r < 0.3:
        # boundary / point constraint
        def bnd(k=None):
            k = k or rng.choice(["at_t0", "at_tf"])
            body = E.rand_expr(rng, sig, depth=1)
            if not E.is_signal(body, names):
                body = ["+", body, rng.choice(sig)]
            return [k, ensure_decision(rng, spec, body, states_only=True)]
        n = rng.choice([1, 1, 2])
        rr = rng.random()
        lhs = []
        for _ in range(n):
            if rr < 0.3:
                lhs.append(["-", bnd("at_tf"), bnd("at_t0")])      # periodicity-like combination
            else:
                lhs.append(bnd())
        rhs = [(rng.choice(glob) if (glob and rng.random() < 0.4) else E.rand_const(rng)) for _ in range(n)]
        c.update({"form": rng.choice(["eq", "le", "ge"]), "lhs": lhs, "rhs": rhs})
        if rng.random() < 0.2:
            c["form"] = "box"
            c["lb"] = [["c", -abs(x[1]) - 0.5] if x[0] == "c" else ["-", x, ["c", 1.0]] for x in rhs]
            c["ub"] = [["c", abs(x[1]) + 0.5] if x[0] == "c" else ["+", x, ["c", 1.0]] for x in rhs]
            del c["rhs"]
        return c
    # path constraint
    n = rng.choice([1, 1, 2, 3])
    grid = rng.choice(list(grids))
    lhs = []
    for _ in range(n):
        body = E.rand_expr(rng, sig, depth=rng.choice([1, 2]))
        if not E.is_signal(body, names):
            body = ["+", body, rng.choice(sig)]
        if allow_offsets and grid == "control" and rng.random() < 0.3:
            o = rng.choice([1, -1, 1, -1, 2, -2, spec["method"]["N"], spec["method"]["N"] + 1])
            inner = E.rand_expr(rng, sig, depth=1)
            # a state leaf makes the shifted operand differ from the unshifted one at every node
            # (controls / per-interval quantities at the final node repeat the last interval's value)
            inner = ["+", inner, ["*", E.rand_const(rng), rng.choice(spec["leaves"]["x"])]]
            body = ["-", ["off", inner, o], ensure_decision(rng, spec, body)]
        lhs.append(ensure_decision(rng, spec, body))
    form = rng.choice(["le", "ge", "eq", "box"])
    c.update({"form": form, "lhs": lhs, "grid": grid if rng.random() < 0.8 or grid != "control" else None})
    bound = lambda: (rng.choice(glob) if (glob and rng.random() < 0.3) else E.rand_const(rng, -2, 2))
    if form == "box":
        c["lb"], c["ub"] = [], []
        for _ in range(n):
            b = bound()
            c["lb"].append(["-", b, ["c", rnd(rng, 0.1, 2.0)]])
            c["ub"].append(["+", b, ["c", rnd(rng, 0.1, 2.0)]])
        if n >= 2 and rng.random() < 0.3:
            # one-sided elements inside a vector-valued two-sided constraint: some (not all) entries of one bound
            # vector are infinite
            side, sign = rng.choice([("lb", -1), ("ub", 1)])
            for i in rng.sample(range(n), rng.randint(1, n - 1)):
                c[side][i] = ["inf", sign]
    else:
        c["rhs"] = [bound() for _ in range(n)]
    if grid != "integrator_roots":
        r2 = rng.random()
        if r2 < 0.25:
            c["include_first"] = False
        elif r2 < 0.5:
            c["include_last"] = False
        elif r2 < 0.6:
            c["include_first"] = False
            c["include_last"] = False
    return c
