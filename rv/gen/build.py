"""Turn a plain-data stage specification into a real rockit OCP through the public API only."""
import math

import numpy as np

from . import expr as E


def _grid_sq(N):
    return [(k / N) ** 2 for k in range(N + 1)]


def _grid_sqrt(N):
    return [math.sqrt(k / N) for k in range(N + 1)]


def _grid_cheb(N):
    return [0.5 * (1 - math.cos(math.pi * k / N)) for k in range(N + 1)]


def _grid_lin(N):
    return [k / N for k in range(N + 1)]


# module-level functions (not lambdas): an OCP whose method holds a FunctionGrid must stay picklable (ocp.save)
GRID_FUNS = {"sq": _grid_sq, "sqrt": _grid_sqrt, "cheb": _grid_cheb, "lin": _grid_lin}


def density_expr(spec, tau):
    import casadi as ca
    kind = spec["kind"]
    a = spec.get("a", 1.0)
    if kind == "lin":
        return 1 + a * tau
    if kind == "quad":
        return 1 + a * tau ** 2
    if kind == "bump":
        return 1 + a * ca.exp(-((tau - 0.5) * 4) ** 2)
    raise ValueError(kind)


def density_np(spec, tau):
    kind = spec["kind"]
    a = spec.get("a", 1.0)
    if kind == "lin":
        return 1 + a * tau
    if kind == "quad":
        return 1 + a * tau ** 2
    if kind == "bump":
        return 1 + a * math.exp(-((tau - 0.5) * 4) ** 2)
    raise ValueError(kind)


def make_grid(g):
    import casadi as ca
    import rockit
    from rockit import sampling_method as sm
    kw = {}
    for k in ("localize_t0", "localize_T"):
        if g.get(k):
            kw[k] = True
    if "min" in g and g["min"] is not None:
        kw["min"] = g["min"]
    if "max" in g and g["max"] is not None:
        kw["max"] = g["max"]
    cls = g.get("cls", "Uniform")
    if cls == "Uniform":
        return rockit.UniformGrid(**kw)
    if cls == "Geometric":
        return rockit.GeometricGrid(g["growth"], local=bool(g.get("local", False)), **kw)
    if cls == "Free":
        kw.pop("localize_T", None)
        return rockit.FreeGrid(**kw)
    if cls == "Function":
        return sm.FunctionGrid(GRID_FUNS[g["fun"]], **kw)
    if cls == "Density":
        tau = ca.MX.sym("tau")
        return rockit.DensityGrid(density_expr(g["density"], tau), **kw)
    if cls == "DenseEdges":
        return rockit.DenseEdgesGrid(multiplier=g.get("multiplier", 10), edge_frac=g.get("edge_frac", 0.1), **kw)
    raise ValueError(cls)


def make_method(m):
    import rockit
    cls = m["cls"]
    kw = {"N": m["N"]}
    if cls != "Spline":
        kw["M"] = m.get("M", 1)
    if "grid" in m and m["grid"] is not None:
        kw["grid"] = make_grid(m["grid"])
    if cls in ("MS", "SS"):
        if m.get("intg"):
            kw["intg"] = m["intg"]
        if m.get("intg_options"):
            kw["intg_options"] = m["intg_options"]
        return (rockit.MultipleShooting if cls == "MS" else rockit.SingleShooting)(**kw)
    if cls == "DC":
        kw["degree"] = m.get("degree", 4)
        kw["scheme"] = m.get("scheme", "radau")
        return rockit.DirectCollocation(**kw)
    if cls == "Spline":
        return rockit.SplineMethod(**kw)
    raise ValueError(cls)


def _scale_arg(scale, shape):
    import casadi as ca
    if scale is None:
        return 1
    if isinstance(scale, (int, float)):
        return scale
    return ca.DM(np.array(scale, dtype=float).reshape(shape))


def meta_for(cid):
    return {"stacktrace": [{"file": "VERIF", "line": int(cid), "name": "c%d" % cid}]}


class Built:
    """Handle on a declared stage: real rockit objects plus the symbol table."""

    def __init__(self, ocp, stage, spec):
        self.ocp = ocp
        self.stage = stage
        self.spec = spec
        self.syms = {}
        self.ctx = E.Ctx(stage, self.syms, use_next_prev=spec.get("use_next_prev", True))
        self.horizon_syms = {}

    def ca(self, node):
        return E.to_ca(node, self.ctx)

    def ca_mat(self, mat):
        return E.mat_to_ca(mat, self.ctx)


def horizon_arg(h):
    import rockit
    if h["kind"] == "num":
        return h["val"]
    if h["kind"] == "free":
        return rockit.FreeTime(h.get("declared_guess", h["guess"]))
    return None  # param / var: assigned after construction


def declare_symbols(b):
    import casadi as ca
    st, sp = b.stage, b.spec
    for s in sp.get("states", []):
        kw = {}
        if s.get("scale") is not None:
            kw["scale"] = _scale_arg(s["scale"], s["shape"])
        if s.get("quad"):
            kw["quad"] = True
        b.syms[s["name"]] = st.state(s["shape"][0], s["shape"][1], **kw)
    for s in sp.get("controls", []):
        kw = {}
        if s.get("scale") is not None:
            kw["scale"] = _scale_arg(s["scale"], s["shape"])
        if s.get("order"):
            kw["order"] = s["order"]
        b.syms[s["name"]] = st.control(s["shape"][0], s["shape"][1], **kw)
    for s in sp.get("algebraics", []):
        kw = {}
        if s.get("scale") is not None:
            kw["scale"] = _scale_arg(s["scale"], s["shape"])
        b.syms[s["name"]] = st.algebraic(s["shape"][0], s["shape"][1], **kw)
    for s in sp.get("params", []):
        kw = {}
        if s.get("grid"):
            kw["grid"] = s["grid"]
        if s.get("include_last"):
            kw["include_last"] = True
        if s.get("order"):
            kw["order"] = s["order"]
        b.syms[s["name"]] = st.parameter(s["shape"][0], s["shape"][1], **kw)
    for s in sp.get("variables", []):
        kw = {}
        if s.get("grid"):
            kw["grid"] = s["grid"]
        if s.get("include_last"):
            kw["include_last"] = True
        if s.get("order"):
            kw["order"] = s["order"]
        if s.get("scale") is not None:
            kw["scale"] = _scale_arg(s["scale"], s["shape"])
        b.syms[s["name"]] = st.variable(s["shape"][0], s["shape"][1], **kw)


def declare_horizon(b):
    st, sp = b.stage, b.spec
    for key, setter in (("t0", st.set_t0), ("T", st.set_T)):
        h = sp[key]
        if h["kind"] in ("param", "var"):
            setter(b.syms[h["name"]] if h.get("factor") is None else h["factor"] * b.syms[h["name"]])


def declare_model(b):
    st, sp = b.stage, b.spec
    dyn = sp.get("dyn")
    states = list(sp.get("states", []))
    if sp.get("rhs_order"):
        rank = {n: i for i, n in enumerate(sp["rhs_order"])}
        states.sort(key=lambda s: rank.get(s["name"], len(rank)))
    concat = sp.get("rhs_concat") or []
    if len(concat) == 2 and all(sp.get("rhs", {}).get(n) is not None for n in concat) and \
            not any(s.get("der_scale") is not None for s in states if s["name"] in concat):
        import casadi as ca
        lhs = ca.vertcat(*[b.syms[n] for n in concat])
        rhs_c = ca.vertcat(*[b.ca_mat(sp["rhs"][n]) for n in concat])
        (st.set_next if dyn == "next" else st.set_der)(lhs, rhs_c)
        states = [s for s in states if s["name"] not in concat]
    for s in states:
        rhs = sp.get("rhs", {}).get(s["name"])
        if rhs is None:
            continue
        e = b.ca_mat(rhs)
        if dyn == "next":
            st.set_next(b.syms[s["name"]], e)
        else:
            kw = {}
            if s.get("der_scale") is not None:
                kw["scale"] = _scale_arg(s["der_scale"], s["shape"])
            st.set_der(b.syms[s["name"]], e, **kw)
    for a in sp.get("alg", []):
        kw = {}
        if a.get("scale") is not None:
            kw["scale"] = a["scale"]
        st.add_alg(b.ca(a["expr"]), **kw)


def constraint_expr(b, c):
    import casadi as ca
    form = c["form"]
    if form == "box":
        e = ca.vertcat(*[b.ca(n) for n in c["lhs"]])
        lb = ca.vertcat(*[b.ca(n) for n in c["lb"]])
        ub = ca.vertcat(*[b.ca(n) for n in c["ub"]])
        return lb <= (e <= ub)
    lhs = ca.vertcat(*[b.ca(n) for n in c["lhs"]])
    rhs = ca.vertcat(*[b.ca(n) for n in c["rhs"]])
    if form == "le":
        return lhs <= rhs
    if form == "ge":
        return lhs >= rhs
    if form == "eq":
        return lhs == rhs
    raise ValueError(form)


def declare_constraint(b, c):
    kw = {}
    if c.get("grid") is not None:
        kw["grid"] = c["grid"]
    if "include_first" in c:
        kw["include_first"] = c["include_first"]
    if "include_last" in c:
        kw["include_last"] = c["include_last"]
    if c.get("scale") is not None:
        import casadi as ca
        kw["scale"] = ca.DM(c["scale"]) if isinstance(c["scale"], list) else c["scale"]
    if c.get("cid") is not None:
        kw["meta"] = meta_for(c["cid"])
    b.stage.subject_to(constraint_expr(b, c), **kw)


def declare_objective(b):
    for term in b.spec.get("objective", []):
        b.stage.add_objective(b.ca(term))


def guess_value(b, g):
    import casadi as ca
    if g["kind"] == "const":
        return g["val"]
    if g["kind"] == "expr":
        if "mat" in g:
            return b.ca_mat(g["mat"])
        return b.ca(g["expr"])
    if g["kind"] == "array":
        arr = np.array(g["val"], dtype=float)
        form = g.get("as", "numpy")
        if form == "DM":
            return ca.DM(arr)
        if form == "numpy1d":
            return arr.reshape(-1)
        return arr
    raise ValueError(g["kind"])


def guess_target(b, g):
    tgt = g["target"]
    if tgt == "T":
        return b.stage.T
    if tgt == "t0":
        return b.stage.t0
    return b.syms[tgt]


def declare_initial(b, guesses=None):
    for g in (b.spec.get("initial", []) if guesses is None else guesses):
        b.stage.set_initial(guess_target(b, g), guess_value(b, g))


def param_value(p):
    """the container a value is handed over in: DM (default), a numpy array, or nested lists"""
    import casadi as ca
    arr = np.array(p["value"], dtype=float)
    form = p.get("value_as", "DM")
    if form == "numpy":
        return arr
    if form == "list":
        return arr.tolist()
    return ca.DM(arr)


def declare_values(b, params=None):
    for p in (b.spec.get("params", []) if params is None else params):
        if p.get("value") is not None:
            b.stage.set_value(b.syms[p["name"]], param_value(p))


def build_ocp(spec, solver=True, method=True, order=None):
    """Declare a single-stage OCP from `spec`; returns Built."""
    import rockit
    kw = {}
    for key in ("t0", "T"):
        a = horizon_arg(spec[key])
        if a is not None:
            kw[key] = a
    ocp = rockit.Ocp(**kw)
    b = Built(ocp, ocp, spec)
    declare_symbols(b)
    declare_horizon(b)
    declare_model(b)
    for c in spec.get("constraints", []):
        declare_constraint(b, c)
    declare_objective(b)
    declare_values(b)
    declare_initial(b)
    if method and spec.get("method") is not None:
        ocp.method(make_method(spec["method"]))
    if solver:
        ocp.solver("ipopt", spec.get("solver_options", {"ipopt.print_level": 0, "print_time": False}))
    return b
