"""Worker process: runs a batch of cases of one property, one JSON result line per case.

usage: python -m rv.worker <PROP> <cases.json> <out.jsonl> <workdir>
"""
import faulthandler
import importlib
import json
import os
import signal
import sys
import time
import traceback

from . import bootstrap


class CaseTimeout(Exception):
    pass


def _alarm(signum, frame):
    raise CaseTimeout()


def load_prop(pid):
    return importlib.import_module("rv.props.%s" % pid.lower())


def run_one(mod, case, limit):
    from .obs import reach
    t0 = time.time()
    signal.signal(signal.SIGALRM, _alarm)
    signal.alarm(int(limit))
    try:
        res = mod.run_case(case)
    except CaseTimeout:
        res = {"status": "inconclusive", "note": "case watchdog (%ds) fired" % limit}
    except MemoryError:
        res = {"status": "inconclusive", "note": "MemoryError"}
    except Exception:
        res = {"status": "inconclusive", "harness_error": True, "note": traceback.format_exc()[-3000:]}
    finally:
        signal.alarm(0)
    # Degenerate generated inputs: a random constraint whose decision variables cancel symbolically (x - x, u(tf) -
    # u(t_N-1), factors of t at t0 = 0 ...) is legitimately refused by Opti / rockit.  The generators probe for this,
    # the residual cases are discarded (never counted as held); a regression that turns valid constraints into
    # constants still shows up as missing rows in the other cases.
    degenerate = ("Constraint must contain decision variables", "You passed a constant to `subject_to`",
                  "You have a constraint that is never statisfied")
    viol = res.get("violations", [])
    if viol and all(v.get("kind") == "exception" and any(d in v.get("detail", "") for d in degenerate) for v in viol) \
            and case.get("kind") not in ("constant-false",):
        res["violations"] = []
        res["status"] = "discarded"
        res["note"] = "degenerate generated constraint (decision variables cancel): " + viol[0]["mech"][:120]
    res.setdefault("status", "held")
    res.setdefault("evals", 0)
    res.setdefault("violations", [])
    res.setdefault("counters", {})
    res["idx"] = case["idx"]
    res["wall"] = round(time.time() - t0, 3)
    res["reached"] = reach.drain()
    try:
        from .obs import contracts
        cv, cc = contracts.drain()
        for k, v in cc.items():
            res["counters"]["contract:" + k] = v
        if cv and res.get("status") not in ("discarded",):
            res["violations"] = list(res["violations"]) + cv
    except Exception:
        pass
    return res


def main(argv):
    pid, infile, outfile, workdir = argv[:4]
    os.makedirs(workdir, exist_ok=True)
    os.chdir(workdir)
    bootstrap.setup_paths()
    log = os.path.join(workdir, "worker.log")
    flog = open(log, "a")
    faulthandler.enable(file=flog, all_threads=True)
    cases = json.load(open(infile))
    limit = int(os.environ.get("RV_CASE_LIMIT", "120"))
    out = open(outfile, "a")
    with bootstrap.quiet(log):
        bootstrap.import_rockit()
        from .obs import reach, contracts
        reach.install()
        if os.environ.get("RV_CONTRACTS", "1") != "0":
            contracts.install()
        mod = load_prop(pid)
        if hasattr(mod, "worker_init"):
            mod.worker_init()
        for case in cases:
            res = run_one(mod, case, limit)
            out.write(json.dumps(res, default=str) + "\n")
            out.flush()
    out.close()
    return 0


if __name__ == "__main__":
    sys.exit(main(sys.argv[1:]))
